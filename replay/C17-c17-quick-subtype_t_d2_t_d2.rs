// property=C17 harness=c17::quick::subtype_t_d2_t_d2
// counterexample(s) found by CBMC and reproduced natively (dev and release-like profile); replay with:
//   /verif/check --replay /verif/replay/C17-c17-quick-subtype_t_d2_t_d2.rs
// HARNESS c17::quick::subtype_t_d2_t_d2
// CEX ["assertion: \"\"subtype relation: same base and depth, parent nullable or child non-null at every level\"\"", "vec![1], vec![0], vec![0], vec![1], vec![0], vec![1], vec![0], vec![1],"]

#[cfg(kani)]
mod verif_playback {
    // counterexample for check: assertion: ""subtype relation: same base and depth, parent nullable or child non-null at every level""
    #[test]
    fn verif_replay_0() {
        let concrete_vals: Vec<Vec<u8>> = vec![vec![1], vec![0], vec![0], vec![1], vec![0], vec![1], vec![0], vec![1],];
        kani::concrete_playback_run(concrete_vals, crate::c17::quick::subtype_t_d2_t_d2);
    }
}
