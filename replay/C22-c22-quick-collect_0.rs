// property=C22 harness=c22::quick::collect_0
// counterexample(s) found by CBMC and reproduced natively (dev and release-like profile); replay with:
//   /verif/check --replay /verif/replay/C22-c22-quick-collect_0.rs
// HARNESS c22::quick::collect_0
// CEX ["assertion: \"This is a placeholder message; Kani doesn't support message formatted at runtime\"", "vec![0], vec![1], vec![170, 170, 170, 170, 170, 170, 170, 128],"]

#[cfg(kani)]
mod verif_playback {
    // counterexample for check: assertion: "This is a placeholder message; Kani doesn't support message formatted at runtime"
    #[test]
    fn verif_replay_0() {
        let concrete_vals: Vec<Vec<u8>> = vec![vec![0], vec![1], vec![170, 170, 170, 170, 170, 170, 170, 128],];
        kani::concrete_playback_run(concrete_vals, crate::c22::quick::collect_0);
    }
}
