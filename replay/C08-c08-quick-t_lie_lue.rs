// property=C08 harness=c08::quick::t_lie_lue
// counterexample(s) found by CBMC and reproduced natively (dev and release-like profile); replay with:
//   /verif/check --replay /verif/replay/C08-c08-quick-t_lie_lue.rs
// HARNESS c08::quick::t_lie_lue
// CEX ["assertion: \"\"== is the documented equality (integers by numeric value)\"\"", "vec![1, 0, 0, 0, 224, 255, 255, 123], vec![1, 0, 0, 0, 224, 255, 255, 123], vec![0, 0, 0, 0, 0, 0, 0, 198],"]

#[cfg(kani)]
mod verif_playback {
    // counterexample for check: assertion: ""== is the documented equality (integers by numeric value)""
    #[test]
    fn verif_replay_0() {
        let concrete_vals: Vec<Vec<u8>> = vec![vec![1, 0, 0, 0, 224, 255, 255, 123], vec![1, 0, 0, 0, 224, 255, 255, 123], vec![0, 0, 0, 0, 0, 0, 0, 198],];
        kani::concrete_playback_run(concrete_vals, crate::c08::quick::t_lie_lue);
    }
}
