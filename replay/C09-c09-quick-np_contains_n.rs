// property=C09 harness=c09::quick::np_contains_n
// counterexample(s) found by CBMC and reproduced natively (dev and release-like profile); replay with:
//   /verif/check --replay /verif/replay/C09-c09-quick-np_contains_n.rs
// HARNESS c09::quick::np_contains_n
// CEX ["assertion: \"internal error: entered unreachable code: \"{:?} {:?}\", left, right\"", "vec![0, 0, 0, 0, 0, 0, 0, 0],"]

#[cfg(kani)]
mod verif_playback {
    // counterexample for check: assertion: "internal error: entered unreachable code: "{:?} {:?}", left, right"
    #[test]
    fn verif_replay_0() {
        let concrete_vals: Vec<Vec<u8>> = vec![vec![0, 0, 0, 0, 0, 0, 0, 0],];
        kani::concrete_playback_run(concrete_vals, crate::c09::quick::np_contains_n);
    }
}
