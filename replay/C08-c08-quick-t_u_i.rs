// property=C08 harness=c08::quick::t_u_i
// counterexample(s) found by CBMC and reproduced natively (dev and release-like profile); replay with:
//   /verif/check --replay /verif/replay/C08-c08-quick-t_u_i.rs
// HARNESS c08::quick::t_u_i
// CEX ["\"\"== is the documented equality (integers by numeric value)\"\"", "vec![255, 255, 255, 255, 255, 255, 255, 255], vec![255, 255, 255, 255, 255, 255, 255, 255], vec![255, 255, 255, 255, 255, 255, 255, 127], vec![255, 255, 255, 255, 255, 255, 127, 5], vec![255, 255, 255, 255, 255, 255, 127, 133], vec![247, 255, 255, 255, 255, 255, 255, 255], vec![255, 255, 255, 255, 255, 255, 255, 127], vec![255, 255, 255, 255, 255, 255, 255, 127], vec![255, 255, 255, 255, 255, 255, 255, 127], vec![255, 255, 255, 255, 255, 255, 255, 127], vec![255, 255, 255, 255, 255, 255, 239, 255],"]

#[cfg(kani)]
mod verif_playback {
    // counterexample for check: ""== is the documented equality (integers by numeric value)""
    #[test]
    fn verif_replay_0() {
        let concrete_vals: Vec<Vec<u8>> = vec![vec![255, 255, 255, 255, 255, 255, 255, 255], vec![255, 255, 255, 255, 255, 255, 255, 255], vec![255, 255, 255, 255, 255, 255, 255, 127], vec![255, 255, 255, 255, 255, 255, 127, 5], vec![255, 255, 255, 255, 255, 255, 127, 133], vec![247, 255, 255, 255, 255, 255, 255, 255], vec![255, 255, 255, 255, 255, 255, 255, 127], vec![255, 255, 255, 255, 255, 255, 255, 127], vec![255, 255, 255, 255, 255, 255, 255, 127], vec![255, 255, 255, 255, 255, 255, 255, 127], vec![255, 255, 255, 255, 255, 255, 239, 255],];
        kani::concrete_playback_run(concrete_vals, crate::c08::quick::t_u_i);
    }
}
