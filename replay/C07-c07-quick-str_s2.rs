// property=C07 harness=c07::quick::str_s2
// counterexample(s) found by CBMC and reproduced natively (dev and release-like profile); replay with:
//   /verif/check --replay /verif/replay/C07-c07-quick-str_s2.rs
// HARNESS c07::quick::str_s2
// CEX ["assertion: \"\"has_substring\"\"", "vec![0], vec![0], vec![0], vec![0], vec![0], vec![0], vec![0], vec![64], vec![64], vec![64], vec![64],"]

#[cfg(kani)]
mod verif_playback {
    // counterexample for check: assertion: ""has_substring""
    #[test]
    fn verif_replay_0() {
        let concrete_vals: Vec<Vec<u8>> = vec![vec![0], vec![0], vec![0], vec![0], vec![0], vec![0], vec![0], vec![64], vec![64], vec![64], vec![64],];
        kani::concrete_playback_run(concrete_vals, crate::c07::quick::str_s2);
    }
}
