// property=C17 harness=c17::quick::intersect_t_d0_t_d0
// counterexample(s) found by CBMC and reproduced natively (dev and release-like profile); replay with:
//   /verif/check --replay /verif/replay/C17-c17-quick-intersect_t_d0_t_d0.rs
// HARNESS c17::quick::intersect_t_d0_t_d0
// CEX ["assertion: \"\"intersection is nullable at a level iff both inputs are (greatest common subtype)\"\"", "vec![1], vec![1], vec![1], vec![1], vec![0], vec![1], vec![1], vec![1],"]

#[cfg(kani)]
mod verif_playback {
    // counterexample for check: assertion: ""intersection is nullable at a level iff both inputs are (greatest common subtype)""
    #[test]
    fn verif_replay_0() {
        let concrete_vals: Vec<Vec<u8>> = vec![vec![1], vec![1], vec![1], vec![1], vec![0], vec![1], vec![1], vec![1],];
        kani::concrete_playback_run(concrete_vals, crate::c17::quick::intersect_t_d0_t_d0);
    }
}
