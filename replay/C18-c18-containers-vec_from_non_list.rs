// property=C18 harness=c18::containers::vec_from_non_list
// counterexample(s) found by CBMC and reproduced natively (dev and release-like profile); replay with:
//   /verif/check --replay /verif/replay/C18-c18-containers-vec_from_non_list.rs
// HARNESS c18::containers::vec_from_non_list
// CEX ["assertion: \"\"Vec target from a non-list source must be an error\"\"", "vec![0, 0, 0, 0, 0, 0, 0, 0],"]

#[cfg(kani)]
mod verif_playback {
    // counterexample for check: assertion: ""Vec target from a non-list source must be an error""
    #[test]
    fn verif_replay_0() {
        let concrete_vals: Vec<Vec<u8>> = vec![vec![0, 0, 0, 0, 0, 0, 0, 0],];
        kani::concrete_playback_run(concrete_vals, crate::c18::containers::vec_from_non_list);
    }
}
