// property=C08 harness=c08::quick::t_e1_s1
// counterexample(s) found by CBMC and reproduced natively (dev and release-like profile); replay with:
//   /verif/check --replay /verif/replay/C08-c08-quick-t_e1_s1.rs
// HARNESS c08::quick::t_e1_s1
// CEX ["assertion: \"\"== agrees with cmp == Equal\"\"", "vec![0], vec![0], vec![0],"]

#[cfg(kani)]
mod verif_playback {
    // counterexample for check: assertion: ""== agrees with cmp == Equal""
    #[test]
    fn verif_replay_0() {
        let concrete_vals: Vec<Vec<u8>> = vec![vec![0], vec![0], vec![0],];
        kani::concrete_playback_run(concrete_vals, crate::c08::quick::t_e1_s1);
    }
}
