// property=C08 harness=c08::quick::t_f_f
// counterexample(s) found by CBMC and reproduced natively (dev and release-like profile); replay with:
//   /verif/check --replay /verif/replay/C08-c08-quick-t_f_f.rs
// HARNESS c08::quick::t_f_f
// CEX ["assertion: \"\"== agrees with cmp == Equal\"\"", "vec![39, 3, 0, 64, 3, 128, 132, 246], vec![39, 15, 0, 64, 3, 145, 132, 250], vec![252, 255, 255, 255, 255, 255, 211, 41], vec![252, 255, 255, 255, 255, 255, 211, 41], vec![255, 255, 255, 255, 255, 255, 255, 255], vec![0, 0, 0, 0, 0, 0, 0, 0], vec![0, 0, 0, 0, 0, 0, 0, 128], vec![255, 255, 255, 255, 255, 255, 255, 255],"]

#[cfg(kani)]
mod verif_playback {
    // counterexample for check: assertion: ""== agrees with cmp == Equal""
    #[test]
    fn verif_replay_0() {
        let concrete_vals: Vec<Vec<u8>> = vec![vec![39, 3, 0, 64, 3, 128, 132, 246], vec![39, 15, 0, 64, 3, 145, 132, 250], vec![252, 255, 255, 255, 255, 255, 211, 41], vec![252, 255, 255, 255, 255, 255, 211, 41], vec![255, 255, 255, 255, 255, 255, 255, 255], vec![0, 0, 0, 0, 0, 0, 0, 0], vec![0, 0, 0, 0, 0, 0, 0, 128], vec![255, 255, 255, 255, 255, 255, 255, 255],];
        kani::concrete_playback_run(concrete_vals, crate::c08::quick::t_f_f);
    }
}
