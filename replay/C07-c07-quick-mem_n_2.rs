// property=C07 harness=c07::quick::mem_n_2
// counterexample(s) found by CBMC and reproduced natively (dev and release-like profile); replay with:
//   /verif/check --replay /verif/replay/C07-c07-quick-mem_n_2.rs
// HARNESS c07::quick::mem_n_2
// CEX ["\"\"one_of\"\"", "vec![0],"]

#[cfg(kani)]
mod verif_playback {
    // counterexample for check: ""one_of""
    #[test]
    fn verif_replay_0() {
        let concrete_vals: Vec<Vec<u8>> = vec![vec![0],];
        kani::concrete_playback_run(concrete_vals, crate::c07::quick::mem_n_2);
    }
}
