// property=C18 harness=c18::quick::i32_from_u64
// counterexample(s) found by CBMC and reproduced natively (dev and release-like profile); replay with:
//   /verif/check --replay /verif/replay/C18-c18-quick-i32_from_u64.rs
// HARNESS c18::quick::i32_from_u64
// CEX ["\"\"integer decode is exact or an error, never wrapped\"\"", "vec![0, 0, 0, 128, 255, 255, 255, 255],"]

#[cfg(kani)]
mod verif_playback {
    // counterexample for check: ""integer decode is exact or an error, never wrapped""
    #[test]
    fn verif_replay_0() {
        let concrete_vals: Vec<Vec<u8>> = vec![vec![0, 0, 0, 128, 255, 255, 255, 255],];
        kani::concrete_playback_run(concrete_vals, crate::c18::quick::i32_from_u64);
    }
}
