// property=C18 harness=c18::quick::u64_from_i64
// counterexample(s) found by CBMC and reproduced natively (dev and release-like profile); replay with:
//   /verif/check --replay /verif/replay/C18-c18-quick-u64_from_i64.rs
// HARNESS c18::quick::u64_from_i64
// CEX ["cover: \"witness: value not representable in target\"", "vec![0, 0, 0, 0, 0, 0, 0, 128],"]

#[cfg(kani)]
mod verif_playback {
    // counterexample for check: cover: "witness: value not representable in target"
    #[test]
    fn verif_replay_0() {
        let concrete_vals: Vec<Vec<u8>> = vec![vec![0, 0, 0, 0, 0, 0, 0, 128],];
        kani::concrete_playback_run(concrete_vals, crate::c18::quick::u64_from_i64);
    }
}
