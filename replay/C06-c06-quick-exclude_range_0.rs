// property=C06 harness=c06::quick::exclude_range_0
// counterexample(s) found by CBMC and reproduced natively (dev and release-like profile); replay with:
//   /verif/check --replay /verif/replay/C06-c06-quick-exclude_range_0.rs
// HARNESS c06::quick::exclude_range_0
// CEX ["assertion: \"\"exclusion result is contained in the original\"\"", "vec![0], vec![0], vec![1], vec![0, 0, 0, 0, 0, 16, 0, 0], vec![0], vec![0, 0, 0, 0, 0, 0, 0, 0], vec![0], vec![0], vec![1], vec![0, 0, 0, 0, 0, 0, 0, 0], vec![0], vec![0, 0, 0, 0, 0, 0, 0, 32], vec![1], vec![1], vec![0, 0, 0, 0, 0, 0, 0, 128], vec![0], vec![0], vec![0, 0, 0, 0, 0, 0, 0, 64], vec![0], vec![0], vec![0], vec![0], vec![0, 0, 0, 0, 0, 0, 0, 33], vec![1], vec![0, 0, 0, 0, 0, 0, 0, 32], vec![0], vec![1], vec![0, 0, 0, 0, 0, 0, 0, 33], vec![1], vec![0, 0, 0, 0, 0, 0, 64, 65],"]

#[cfg(kani)]
mod verif_playback {
    // counterexample for check: assertion: ""exclusion result is contained in the original""
    #[test]
    fn verif_replay_0() {
        let concrete_vals: Vec<Vec<u8>> = vec![vec![0], vec![0], vec![1], vec![0, 0, 0, 0, 0, 16, 0, 0], vec![0], vec![0, 0, 0, 0, 0, 0, 0, 0], vec![0], vec![0], vec![1], vec![0, 0, 0, 0, 0, 0, 0, 0], vec![0], vec![0, 0, 0, 0, 0, 0, 0, 32], vec![1], vec![1], vec![0, 0, 0, 0, 0, 0, 0, 128], vec![0], vec![0], vec![0, 0, 0, 0, 0, 0, 0, 64], vec![0], vec![0], vec![0], vec![0], vec![0, 0, 0, 0, 0, 0, 0, 33], vec![1], vec![0, 0, 0, 0, 0, 0, 0, 32], vec![0], vec![1], vec![0, 0, 0, 0, 0, 0, 0, 33], vec![1], vec![0, 0, 0, 0, 0, 0, 64, 65],];
        kani::concrete_playback_run(concrete_vals, crate::c06::quick::exclude_range_0);
    }
}
