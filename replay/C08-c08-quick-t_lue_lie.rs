// property=C08 harness=c08::quick::t_lue_lie
// counterexample(s) found by CBMC and reproduced natively (dev and release-like profile); replay with:
//   /verif/check --replay /verif/replay/C08-c08-quick-t_lue_lie.rs
// HARNESS c08::quick::t_lue_lie
// CEX ["assertion: \"\"== is the documented equality (integers by numeric value)\"\"", "vec![128, 237, 157, 28, 114, 192, 226, 127], vec![128, 237, 157, 28, 114, 192, 226, 127], vec![255, 255, 255, 255, 255, 255, 255, 255],"]

#[cfg(kani)]
mod verif_playback {
    // counterexample for check: assertion: ""== is the documented equality (integers by numeric value)""
    #[test]
    fn verif_replay_0() {
        let concrete_vals: Vec<Vec<u8>> = vec![vec![128, 237, 157, 28, 114, 192, 226, 127], vec![128, 237, 157, 28, 114, 192, 226, 127], vec![255, 255, 255, 255, 255, 255, 255, 255],];
        kani::concrete_playback_run(concrete_vals, crate::c08::quick::t_lue_lie);
    }
}
