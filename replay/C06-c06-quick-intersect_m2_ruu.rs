// property=C06 harness=c06::quick::intersect_m2_ruu
// counterexample(s) found by CBMC and reproduced natively (dev and release-like profile); replay with:
//   /verif/check --replay /verif/replay/C06-c06-quick-intersect_m2_ruu.rs
// HARNESS c06::quick::intersect_m2_ruu
// CEX ["cover: \"witness: probe outside the intersection\"", "vec![0], vec![0], vec![0], vec![0],"]

#[cfg(kani)]
mod verif_playback {
    // counterexample for check: cover: "witness: probe outside the intersection"
    #[test]
    fn verif_replay_0() {
        let concrete_vals: Vec<Vec<u8>> = vec![vec![0], vec![0], vec![0], vec![0],];
        kani::concrete_playback_run(concrete_vals, crate::c06::quick::intersect_m2_ruu);
    }
}
