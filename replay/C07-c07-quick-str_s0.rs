// property=C07 harness=c07::quick::str_s0
// counterexample(s) found by CBMC and reproduced natively (dev and release-like profile); replay with:
//   /verif/check --replay /verif/replay/C07-c07-quick-str_s0.rs
// HARNESS c07::quick::str_s0
// CEX ["cover: \"witness: prefix holds\"", ""]

#[cfg(kani)]
mod verif_playback {
    // counterexample for check: cover: "witness: prefix holds"
    #[test]
    fn verif_replay_0() {
        let concrete_vals: Vec<Vec<u8>> = vec![];
        kani::concrete_playback_run(concrete_vals, crate::c07::quick::str_s0);
    }
}
