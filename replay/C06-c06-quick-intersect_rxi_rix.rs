// property=C06 harness=c06::quick::intersect_rxi_rix
// counterexample(s) found by CBMC and reproduced natively (dev and release-like profile); replay with:
//   /verif/check --replay /verif/replay/C06-c06-quick-intersect_rxi_rix.rs
// HARNESS c06::quick::intersect_rxi_rix
// CEX ["\"\"intersection contains exactly the values contained in both\"\"", "vec![1], vec![0, 0, 0, 0, 0, 0, 246, 138], vec![0], vec![241, 186, 250, 111, 72, 238, 253, 107], vec![0], vec![1], vec![0, 0, 0, 0, 0, 0, 246, 138], vec![1], vec![0, 0, 0, 0, 0, 0, 246, 138], vec![1], vec![1], vec![0, 0, 0, 0, 0, 0, 246, 138],"]

#[cfg(kani)]
mod verif_playback {
    // counterexample for check: ""intersection contains exactly the values contained in both""
    #[test]
    fn verif_replay_0() {
        let concrete_vals: Vec<Vec<u8>> = vec![vec![1], vec![0, 0, 0, 0, 0, 0, 246, 138], vec![0], vec![241, 186, 250, 111, 72, 238, 253, 107], vec![0], vec![1], vec![0, 0, 0, 0, 0, 0, 246, 138], vec![1], vec![0, 0, 0, 0, 0, 0, 246, 138], vec![1], vec![1], vec![0, 0, 0, 0, 0, 0, 246, 138],];
        kani::concrete_playback_run(concrete_vals, crate::c06::quick::intersect_rxi_rix);
    }
}
