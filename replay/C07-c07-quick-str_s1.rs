// property=C07 harness=c07::quick::str_s1
// counterexample(s) found by CBMC and reproduced natively (dev and release-like profile); replay with:
//   /verif/check --replay /verif/replay/C07-c07-quick-str_s1.rs
// HARNESS c07::quick::str_s1
// CEX ["assertion: \"\"has_substring\"\"", "vec![0], vec![0], vec![0], vec![0],"]

#[cfg(kani)]
mod verif_playback {
    // counterexample for check: assertion: ""has_substring""
    #[test]
    fn verif_replay_0() {
        let concrete_vals: Vec<Vec<u8>> = vec![vec![0], vec![0], vec![0], vec![0],];
        kani::concrete_playback_run(concrete_vals, crate::c07::quick::str_s1);
    }
}
