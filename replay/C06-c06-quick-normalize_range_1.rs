// property=C06 harness=c06::quick::normalize_range_1
// counterexample(s) found by CBMC and reproduced natively (dev and release-like profile); replay with:
//   /verif/check --replay /verif/replay/C06-c06-quick-normalize_range_1.rs
// HARNESS c06::quick::normalize_range_1
// CEX ["\"\"normalizing never changes which values a candidate contains\"\"", "vec![1], vec![255, 255, 255, 255, 255, 255, 255, 255], vec![1], vec![255, 255, 255, 255, 255, 255, 255, 255], vec![1], vec![255], vec![255, 255, 255, 255, 255, 255, 255, 255], vec![1], vec![255, 255, 255, 255, 255, 255, 255, 255], vec![1], vec![255], vec![255, 255, 255, 255, 255, 255, 255, 255], vec![1], vec![255, 255, 255, 255, 255, 255, 255, 255], vec![1], vec![255, 255, 255, 255, 255, 255, 255, 255], vec![1], vec![255], vec![255, 255, 255, 255, 255, 255, 255, 255], vec![1], vec![255, 255, 255, 255, 255, 255, 255, 255], vec![1], vec![255, 255, 255, 255, 255, 255, 255, 255], vec![1], vec![1], vec![255, 255, 255, 255, 255, 255, 255, 255],"]

#[cfg(kani)]
mod verif_playback {
    // counterexample for check: ""normalizing never changes which values a candidate contains""
    #[test]
    fn verif_replay_0() {
        let concrete_vals: Vec<Vec<u8>> = vec![vec![1], vec![255, 255, 255, 255, 255, 255, 255, 255], vec![1], vec![255, 255, 255, 255, 255, 255, 255, 255], vec![1], vec![255], vec![255, 255, 255, 255, 255, 255, 255, 255], vec![1], vec![255, 255, 255, 255, 255, 255, 255, 255], vec![1], vec![255], vec![255, 255, 255, 255, 255, 255, 255, 255], vec![1], vec![255, 255, 255, 255, 255, 255, 255, 255], vec![1], vec![255, 255, 255, 255, 255, 255, 255, 255], vec![1], vec![255], vec![255, 255, 255, 255, 255, 255, 255, 255], vec![1], vec![255, 255, 255, 255, 255, 255, 255, 255], vec![1], vec![255, 255, 255, 255, 255, 255, 255, 255], vec![1], vec![1], vec![255, 255, 255, 255, 255, 255, 255, 255],];
        kani::concrete_playback_run(concrete_vals, crate::c06::quick::normalize_range_1);
    }
}
