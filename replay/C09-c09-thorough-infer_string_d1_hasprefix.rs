// property=C09 harness=c09::thorough::infer_string_d1_hasprefix
// counterexample(s) found by CBMC and reproduced natively (dev and release-like profile); replay with:
//   /verif/check --replay /verif/replay/C09-c09-thorough-infer_string_d1_hasprefix.rs
// HARNESS c09::thorough::infer_string_d1_hasprefix
// CEX ["cover: \"witness: filter accepted by the frontend\"", "vec![0], vec![0], vec![0], vec![0],"]

#[cfg(kani)]
mod verif_playback {
    // counterexample for check: cover: "witness: filter accepted by the frontend"
    #[test]
    fn verif_replay_0() {
        let concrete_vals: Vec<Vec<u8>> = vec![vec![0], vec![0], vec![0], vec![0],];
        kani::concrete_playback_run(concrete_vals, crate::c09::thorough::infer_string_d1_hasprefix);
    }
}
