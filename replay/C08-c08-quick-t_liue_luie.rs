// property=C08 harness=c08::quick::t_liue_luie
// counterexample(s) found by CBMC and reproduced natively (dev and release-like profile); replay with:
//   /verif/check --replay /verif/replay/C08-c08-quick-t_liue_luie.rs
// HARNESS c08::quick::t_liue_luie
// CEX ["assertion: \"\"== is the documented equality (integers by numeric value)\"\"", "vec![0, 16, 0, 0, 0, 0, 0, 16], vec![1, 168, 0, 0, 0, 0, 200, 33], vec![0, 16, 0, 0, 0, 0, 0, 16], vec![1, 168, 0, 0, 0, 0, 200, 33], vec![0, 0, 0, 0, 0, 0, 0, 16], vec![0, 0, 0, 0, 0, 0, 0, 128],"]

#[cfg(kani)]
mod verif_playback {
    // counterexample for check: assertion: ""== is the documented equality (integers by numeric value)""
    #[test]
    fn verif_replay_0() {
        let concrete_vals: Vec<Vec<u8>> = vec![vec![0, 16, 0, 0, 0, 0, 0, 16], vec![1, 168, 0, 0, 0, 0, 200, 33], vec![0, 16, 0, 0, 0, 0, 0, 16], vec![1, 168, 0, 0, 0, 0, 200, 33], vec![0, 0, 0, 0, 0, 0, 0, 16], vec![0, 0, 0, 0, 0, 0, 0, 128],];
        kani::concrete_playback_run(concrete_vals, crate::c08::quick::t_liue_luie);
    }
}
