// property=C22 harness=c22::quick::two_ge_ne
// counterexample(s) found by CBMC and reproduced natively (dev and release-like profile); replay with:
//   /verif/check --replay /verif/replay/C22-c22-quick-two_ge_ne.rs
// HARNESS c22::quick::two_ge_ne
// CEX ["cover: \"witness: count passes both filters\"", "vec![216, 255, 255, 255, 255, 127, 65, 0], vec![219, 255, 255, 255, 255, 255, 255, 255],"]

#[cfg(kani)]
mod verif_playback {
    // counterexample for check: cover: "witness: count passes both filters"
    #[test]
    fn verif_replay_0() {
        let concrete_vals: Vec<Vec<u8>> = vec![vec![216, 255, 255, 255, 255, 127, 65, 0], vec![219, 255, 255, 255, 255, 255, 255, 255],];
        kani::concrete_playback_run(concrete_vals, crate::c22::quick::two_ge_ne);
    }
}
