// property=C17 harness=c17::quick::subtype_t_d0_t_d1
// counterexample(s) found by CBMC and reproduced natively (dev and release-like profile); replay with:
//   /verif/check --replay /verif/replay/C17-c17-quick-subtype_t_d0_t_d1.rs
// HARNESS c17::quick::subtype_t_d0_t_d1
// CEX ["\"\"subtype relation: same base and depth, parent nullable or child non-null at every level\"\"", "vec![1], vec![0], vec![0], vec![0], vec![0], vec![0], vec![0], vec![0],"]

#[cfg(kani)]
mod verif_playback {
    // counterexample for check: ""subtype relation: same base and depth, parent nullable or child non-null at every level""
    #[test]
    fn verif_replay_0() {
        let concrete_vals: Vec<Vec<u8>> = vec![vec![1], vec![0], vec![0], vec![0], vec![0], vec![0], vec![0], vec![0],];
        kani::concrete_playback_run(concrete_vals, crate::c17::quick::subtype_t_d0_t_d1);
    }
}
