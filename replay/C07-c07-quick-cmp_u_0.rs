// property=C07 harness=c07::quick::cmp_u_0
// counterexample(s) found by CBMC and reproduced natively (dev and release-like profile); replay with:
//   /verif/check --replay /verif/replay/C07-c07-quick-cmp_u_0.rs
// HARNESS c07::quick::cmp_u_0
// CEX ["\"\"less_than_or_equal\"\"", "vec![255, 255, 255, 255, 255, 255, 255, 255], vec![255, 255, 255, 255, 255, 255, 255, 127], vec![255, 255, 255, 255, 255, 255, 255, 127],"]

#[cfg(kani)]
mod verif_playback {
    // counterexample for check: ""less_than_or_equal""
    #[test]
    fn verif_replay_0() {
        let concrete_vals: Vec<Vec<u8>> = vec![vec![255, 255, 255, 255, 255, 255, 255, 255], vec![255, 255, 255, 255, 255, 255, 255, 127], vec![255, 255, 255, 255, 255, 255, 255, 127],];
        kani::concrete_playback_run(concrete_vals, crate::c07::quick::cmp_u_0);
    }
}
