// property=C07 harness=c07::quick::cmp_f_0
// counterexample(s) found by CBMC and reproduced natively (dev and release-like profile); replay with:
//   /verif/check --replay /verif/replay/C07-c07-quick-cmp_f_0.rs
// HARNESS c07::quick::cmp_f_0
// CEX ["assertion: \"\"less_than\"\"", "vec![0, 0, 0, 0, 0, 0, 0, 0], vec![0, 0, 0, 0, 0, 0, 0, 0], vec![0, 0, 0, 0, 0, 0, 0, 0], vec![0, 0, 0, 0, 0, 0, 0, 0], vec![0, 0, 0, 0, 0, 0, 0, 0], vec![0, 0, 0, 0, 0, 0, 0, 128], vec![0, 0, 0, 0, 0, 0, 0, 0],"]
// CEX ["cover: \"witness: equal operands\"", "vec![0, 0, 0, 0, 0, 0, 0, 0], vec![0, 0, 0, 0, 0, 0, 0, 0], vec![0, 0, 0, 0, 0, 0, 0, 0], vec![0, 0, 0, 0, 0, 0, 0, 0], vec![0, 0, 0, 0, 0, 0, 0, 0], vec![0, 0, 0, 0, 0, 0, 0, 0], vec![0, 0, 0, 0, 0, 0, 0, 128],"]

#[cfg(kani)]
mod verif_playback {
    // counterexample for check: assertion: ""less_than""
    #[test]
    fn verif_replay_0() {
        let concrete_vals: Vec<Vec<u8>> = vec![vec![0, 0, 0, 0, 0, 0, 0, 0], vec![0, 0, 0, 0, 0, 0, 0, 0], vec![0, 0, 0, 0, 0, 0, 0, 0], vec![0, 0, 0, 0, 0, 0, 0, 0], vec![0, 0, 0, 0, 0, 0, 0, 0], vec![0, 0, 0, 0, 0, 0, 0, 128], vec![0, 0, 0, 0, 0, 0, 0, 0],];
        kani::concrete_playback_run(concrete_vals, crate::c07::quick::cmp_f_0);
    }
    // counterexample for check: cover: "witness: equal operands"
    #[test]
    fn verif_replay_1() {
        let concrete_vals: Vec<Vec<u8>> = vec![vec![0, 0, 0, 0, 0, 0, 0, 0], vec![0, 0, 0, 0, 0, 0, 0, 0], vec![0, 0, 0, 0, 0, 0, 0, 0], vec![0, 0, 0, 0, 0, 0, 0, 0], vec![0, 0, 0, 0, 0, 0, 0, 0], vec![0, 0, 0, 0, 0, 0, 0, 0], vec![0, 0, 0, 0, 0, 0, 0, 128],];
        kani::concrete_playback_run(concrete_vals, crate::c07::quick::cmp_f_0);
    }
}
