// property=C17 harness=c17::quick::intersect_t_d1_t_d0
// counterexample(s) found by CBMC and reproduced natively (dev and release-like profile); replay with:
//   /verif/check --replay /verif/replay/C17-c17-quick-intersect_t_d1_t_d0.rs
// HARNESS c17::quick::intersect_t_d1_t_d0
// CEX ["cover: \"witness: intersection exists\"", "vec![0], vec![0], vec![0], vec![0], vec![0], vec![0], vec![0], vec![0],"]

#[cfg(kani)]
mod verif_playback {
    // counterexample for check: cover: "witness: intersection exists"
    #[test]
    fn verif_replay_0() {
        let concrete_vals: Vec<Vec<u8>> = vec![vec![0], vec![0], vec![0], vec![0], vec![0], vec![0], vec![0], vec![0],];
        kani::concrete_playback_run(concrete_vals, crate::c17::quick::intersect_t_d1_t_d0);
    }
}
