// property=C07 harness=c07::quick::cmp_li_li
// counterexample found by CBMC; replay natively with:
//   /verif/check --replay /verif/replay/C07-c07-quick-cmp_li_li.rs
// HARNESS c07::quick::cmp_li_li
// VALS vec![0, 0, 0, 0, 0, 0, 0, 0], vec![0, 0, 0, 0, 0, 0, 0, 128],

#[cfg(kani)]
mod verif_playback {
    #[test]
    fn verif_replay() {
        let concrete_vals: Vec<Vec<u8>> = vec![vec![0, 0, 0, 0, 0, 0, 0, 0], vec![0, 0, 0, 0, 0, 0, 0, 128],];
        kani::concrete_playback_run(concrete_vals, crate::c07::quick::cmp_li_li);
    }
}
