// property=C06 harness=c06::quick::exclude_range_1
// counterexample(s) found by CBMC and reproduced natively (dev and release-like profile); replay with:
//   /verif/check --replay /verif/replay/C06-c06-quick-exclude_range_1.rs
// HARNESS c06::quick::exclude_range_1
// CEX ["assertion: \"\"exclusion result is contained in the original\"\"", "vec![0], vec![252, 255, 255, 255, 255, 255, 232, 206], vec![1], vec![252, 255, 255, 255, 255, 255, 232, 198], vec![1], vec![3], vec![252, 255, 255, 255, 255, 255, 232, 206], vec![3], vec![253, 255, 255, 255, 255, 255, 255, 7], vec![1], vec![6, 0, 0, 0, 0, 0, 47, 204], vec![0], vec![0], vec![0], vec![0], vec![2, 0, 0, 0, 0, 0, 0, 224], vec![1], vec![0, 0, 0, 0, 0, 0, 0, 0], vec![1], vec![2], vec![0, 0, 0, 0, 0, 0, 0, 0], vec![1], vec![2, 0, 0, 0, 0, 0, 0, 128],"]

#[cfg(kani)]
mod verif_playback {
    // counterexample for check: assertion: ""exclusion result is contained in the original""
    #[test]
    fn verif_replay_0() {
        let concrete_vals: Vec<Vec<u8>> = vec![vec![0], vec![252, 255, 255, 255, 255, 255, 232, 206], vec![1], vec![252, 255, 255, 255, 255, 255, 232, 198], vec![1], vec![3], vec![252, 255, 255, 255, 255, 255, 232, 206], vec![3], vec![253, 255, 255, 255, 255, 255, 255, 7], vec![1], vec![6, 0, 0, 0, 0, 0, 47, 204], vec![0], vec![0], vec![0], vec![0], vec![2, 0, 0, 0, 0, 0, 0, 224], vec![1], vec![0, 0, 0, 0, 0, 0, 0, 0], vec![1], vec![2], vec![0, 0, 0, 0, 0, 0, 0, 0], vec![1], vec![2, 0, 0, 0, 0, 0, 0, 128],];
        kani::concrete_playback_run(concrete_vals, crate::c06::quick::exclude_range_1);
    }
}
