// property=C12 harness=c12::quick::fits_int_d0_1
// counterexample(s) found by CBMC and reproduced natively (dev and release-like profile); replay with:
//   /verif/check --replay /verif/replay/C12-c12-quick-fits_int_d0_1.rs
// HARNESS c12::quick::fits_int_d0_1
// CEX ["\"\"is_valid_value decides exactly 'value fits type'\"\"", "vec![0], vec![0], vec![1], vec![1], vec![1], vec![0], vec![1], vec![1], vec![1],"]

#[cfg(kani)]
mod verif_playback {
    // counterexample for check: ""is_valid_value decides exactly 'value fits type'""
    #[test]
    fn verif_replay_0() {
        let concrete_vals: Vec<Vec<u8>> = vec![vec![0], vec![0], vec![1], vec![1], vec![1], vec![0], vec![1], vec![1], vec![1],];
        kani::concrete_playback_run(concrete_vals, crate::c12::quick::fits_int_d0_1);
    }
}
