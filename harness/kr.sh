#!/bin/bash
# dev helper: kr.sh <timeout_s> <harness filters...>
T=$1; shift
H=""; for h in "$@"; do H="$H --harness $h"; done
export CARGO_NET_OFFLINE=true
( time timeout 3600 cargo kani --target-dir ${KT:-target/kani} -j 12 --output-format terse -Z unstable-options -Z stubbing --harness-timeout ${T}s --export-json ${KJ:-/tmp/kj.json} $H ) 2>&1 | grep -E "^error|^warning: unused|panicked|Complete|real|Verification failed" | head -40
python3 - <<'PY'
import json
d=json.load(open(__import__('os').environ.get('KJ','/tmp/kj.json')))
for r,c in zip(d['verification_results']['results'], d['cbmc']):
    st=c['cbmc_stats'] or {}
    print(f"{r['harness_id']:55s} {r['status']:8s} {r['duration_ms']/1000:8.1f}s symex={(st.get('runtime_symex_s') or 0):.1f} solver={(st.get('runtime_solver_s') or 0):.1f} checks={len(r['checks'])}")
    for ch in r['checks']:
        if ch['status'] in ('Failure',): print('   ',ch['status'], ch['function'], '|', ch['description'][:120], '|', ch['location'].get('file'), ch['location'].get('line'))
        if ch['category']=='cover' and ch['status']!='Satisfied': print('   cover', ch['status'], ch['description'])
PY
