//! C04 (kernel) — hint candidates never exclude a value that passes the filter they come from.
//!
//! Soundness of the two candidate constructors, one filter at a time:
//!  * dynamic (`hints/dynamic.rs::compute_candidate_from_operation`): the candidate computed from a
//!    resolved tag value contains every property value for which `property <op> tag` holds;
//!  * static (`hints/filters.rs::candidate_from_statically_evaluated_filters`): likewise for a
//!    `$variable` argument.
//! Membership and "the filter passes" are both taken from the reference model, not from the code
//! under test.

use std::cmp::Ordering;
use std::collections::BTreeMap;
use std::ops::Bound;
use std::sync::Arc;

use trustfall_core::interpreter::verif_hints as h;
use trustfall_core::interpreter::{CandidateValue, Range};
use trustfall_core::ir::{Argument, FieldValue, LocalField, Operation, Type, VariableRef};

use crate::mkv;
use crate::refmodel as r;

#[derive(Clone, Copy, PartialEq, Eq)]
pub enum Op {
    Eq,
    Ne,
    Lt,
    Le,
    Gt,
    Ge,
    OneOf,
    NotOneOf,
    IsNull,
    IsNotNull,
}

/// Reference: does `p <op> arg` hold?
pub fn passes(op: Op, p: &FieldValue, arg: &FieldValue) -> bool {
    let null = r::is_null(p) || r::is_null(arg);
    let c = r::ref_cmp(p, arg);
    match op {
        Op::Eq => r::ref_eq(p, arg),
        Op::Ne => !r::ref_eq(p, arg),
        Op::Lt => !null && c == Some(Ordering::Less),
        Op::Le => !null && matches!(c, Some(Ordering::Less | Ordering::Equal)),
        Op::Gt => !null && c == Some(Ordering::Greater),
        Op::Ge => !null && matches!(c, Some(Ordering::Greater | Ordering::Equal)),
        Op::OneOf | Op::NotOneOf => {
            let mut found = false;
            if let FieldValue::List(xs) = arg {
                let mut i = 0;
                while i < xs.len() {
                    if r::ref_eq(p, &xs[i]) {
                        found = true;
                    }
                    i += 1;
                }
            }
            if op == Op::OneOf { found } else { !found }
        }
        Op::IsNull => r::is_null(p),
        Op::IsNotNull => !r::is_null(p),
    }
}

fn above_start(b: Bound<&FieldValue>, p: &FieldValue) -> bool {
    match b {
        Bound::Unbounded => true,
        Bound::Included(s) => matches!(r::ref_cmp(s, p), Some(Ordering::Less | Ordering::Equal)),
        Bound::Excluded(s) => r::ref_cmp(s, p) == Some(Ordering::Less),
    }
}
fn below_end(b: Bound<&FieldValue>, p: &FieldValue) -> bool {
    match b {
        Bound::Unbounded => true,
        Bound::Included(e) => matches!(r::ref_cmp(p, e), Some(Ordering::Less | Ordering::Equal)),
        Bound::Excluded(e) => r::ref_cmp(p, e) == Some(Ordering::Less),
    }
}

/// Which values does a candidate denote?
pub fn member(c: &CandidateValue<FieldValue>, p: &FieldValue) -> bool {
    match c {
        CandidateValue::Impossible => false,
        CandidateValue::All => true,
        CandidateValue::Single(v) => r::ref_eq(v, p),
        CandidateValue::Multiple(vs) => {
            let mut found = false;
            let mut i = 0;
            while i < vs.len() {
                if r::ref_eq(&vs[i], p) {
                    found = true;
                }
                i += 1;
            }
            found
        }
        CandidateValue::Range(rg) => {
            if r::is_null(p) {
                rg.null_included()
            } else {
                above_start(rg.start_bound(), p) && below_end(rg.end_bound(), p)
            }
        }
        _ => panic!("unknown CandidateValue variant"),
    }
}

fn mk_unit_op(op: Op) -> Operation<(), ()> {
    match op {
        Op::Eq => Operation::Equals((), ()),
        Op::Ne => Operation::NotEquals((), ()),
        Op::Lt => Operation::LessThan((), ()),
        Op::Le => Operation::LessThanOrEqual((), ()),
        Op::Gt => Operation::GreaterThan((), ()),
        Op::Ge => Operation::GreaterThanOrEqual((), ()),
        Op::OneOf => Operation::OneOf((), ()),
        Op::NotOneOf => Operation::NotOneOf((), ()),
        Op::IsNull => Operation::IsNull(()),
        Op::IsNotNull => Operation::IsNotNull(()),
    }
}

/// Dynamic hint from one resolved tag value, starting from "no other constraint".
pub fn dynamic_body(op: Op, tag: FieldValue, p: FieldValue) {
    let ok = passes(op, &p, &tag);
    let operation = mk_unit_op(op);
    let cand = h::dynamic_candidate(&operation, CandidateValue::All, Some(tag.clone()));
    let m = member(&cand, &p);
    kani::cover!(ok, "witness: property value passes the filter");
    kani::cover!(!m, "witness: hint excludes some value");
    std::mem::forget(cand);
    std::mem::forget(tag);
    std::mem::forget(p);
    assert!(!ok || m, "dynamic hint never excludes a value that passes the filter");
}

/// Static hint from one `$variable` filter.
pub fn static_body(op: Op, nullable: bool, arg: FieldValue, p: FieldValue) {
    let ok = passes(op, &p, &arg) && (nullable || !r::is_null(&p));
    let ty = Type::new_named_type("T", true);
    let lf = LocalField { field_name: Arc::from("p"), field_type: ty.clone() };
    let var = Argument::Variable(VariableRef { variable_name: Arc::from("v"), variable_type: ty });
    let operation: Operation<LocalField, Argument> = match op {
        Op::Eq => Operation::Equals(lf, var),
        Op::Ne => Operation::NotEquals(lf, var),
        Op::Lt => Operation::LessThan(lf, var),
        Op::Le => Operation::LessThanOrEqual(lf, var),
        Op::Gt => Operation::GreaterThan(lf, var),
        Op::Ge => Operation::GreaterThanOrEqual(lf, var),
        Op::OneOf => Operation::OneOf(lf, var),
        Op::NotOneOf => Operation::NotOneOf(lf, var),
        Op::IsNull => Operation::IsNull(lf),
        Op::IsNotNull => Operation::IsNotNull(lf),
    };
    let mut vars: BTreeMap<Arc<str>, FieldValue> = BTreeMap::new();
    vars.insert(Arc::from("v"), arg);
    let cand = h::static_candidate(std::slice::from_ref(&operation), &vars, nullable);
    let m = match &cand {
        None => true,
        Some(c) => member(c, &p),
    };
    kani::cover!(ok, "witness: property value passes the filter");
    kani::cover!(!m, "witness: hint excludes some value");
    std::mem::forget(cand);
    std::mem::forget(vars);
    std::mem::forget(operation);
    std::mem::forget(p);
    assert!(!ok || m, "static hint never excludes a value that passes the filter");
}

/// Mandatory-edge classification for folds: `fold_requires_at_least_one_element` (hints/filters.rs)
/// tells adapters that a folded edge must exist at least once. An adapter may then discard vertices
/// without that edge, which is only sound if every count that passes the fold's count filters is >= 1,
/// i.e. an empty fold (count 0) can never pass.
pub mod mandatory {
    use super::*;
    use std::num::NonZeroUsize;
    use trustfall_core::ir::{
        EdgeParameters, Eid, FoldSpecificFieldKind, IRFold, IRQueryComponent, Vid,
    };
    use crate::c22::{Op as COp, passes as cpasses};

    fn vid(i: usize) -> Vid { Vid::new(NonZeroUsize::new(i).unwrap()) }
    fn eid(i: usize) -> Eid { Eid::new(NonZeroUsize::new(i).unwrap()) }

    fn mk_fold(filters: Vec<Operation<FoldSpecificFieldKind, Argument>>) -> IRFold {
        let comp = Arc::new(IRQueryComponent {
            root: vid(2),
            vertices: BTreeMap::new(),
            edges: BTreeMap::new(),
            folds: BTreeMap::new(),
            outputs: BTreeMap::new(),
        });
        IRFold {
            eid: eid(1),
            from_vid: vid(1),
            to_vid: vid(2),
            edge_name: Arc::from("e"),
            parameters: EdgeParameters::default(),
            component: comp,
            imported_tags: vec![],
            fold_specific_outputs: BTreeMap::new(),
            post_filters: filters,
        }
    }

    fn mk_filter(op: COp) -> Operation<FoldSpecificFieldKind, Argument> {
        let var = Argument::Variable(VariableRef {
            variable_name: Arc::from("v"),
            variable_type: Type::new_named_type("Int", false),
        });
        match op {
            COp::Eq => Operation::Equals(FoldSpecificFieldKind::Count, var),
            COp::Ne => Operation::NotEquals(FoldSpecificFieldKind::Count, var),
            COp::Lt => Operation::LessThan(FoldSpecificFieldKind::Count, var),
            COp::Le => Operation::LessThanOrEqual(FoldSpecificFieldKind::Count, var),
            COp::Gt => Operation::GreaterThan(FoldSpecificFieldKind::Count, var),
            COp::Ge => Operation::GreaterThanOrEqual(FoldSpecificFieldKind::Count, var),
        }
    }

    fn any_int_arg(signed: bool) -> (FieldValue, i128) {
        if signed {
            let a: i64 = kani::any();
            (FieldValue::Int64(a), a as i128)
        } else {
            let a: u64 = kani::any();
            (FieldValue::Uint64(a), a as i128)
        }
    }

    /// One count filter `count <op> $v`.
    pub fn single_body(op: COp, signed: bool) {
        let (arg, a) = any_int_arg(signed);
        let mut vars: BTreeMap<Arc<str>, FieldValue> = BTreeMap::new();
        vars.insert(Arc::from("v"), arg);
        let fold = mk_fold(vec![mk_filter(op)]);
        let mandatory = h::fold_requires_at_least_one_element(&vars, &fold);
        std::mem::forget(fold);
        std::mem::forget(vars);
        let empty_passes = cpasses(op, 0, a);
        kani::cover!(mandatory, "witness: fold classified as mandatory");
        kani::cover!(empty_passes, "witness: an empty fold passes the count filter");
        assert!(!mandatory || !empty_passes, "a fold reported as requiring at least one element cannot pass its count filters when empty");
    }

    /// Two count filters against the same variable.
    pub fn two_body(op1: COp, op2: COp, signed: bool) {
        let (arg, a) = any_int_arg(signed);
        let mut vars: BTreeMap<Arc<str>, FieldValue> = BTreeMap::new();
        vars.insert(Arc::from("v"), arg);
        let fold = mk_fold(vec![mk_filter(op1), mk_filter(op2)]);
        let mandatory = h::fold_requires_at_least_one_element(&vars, &fold);
        std::mem::forget(fold);
        std::mem::forget(vars);
        let empty_passes = cpasses(op1, 0, a) && cpasses(op2, 0, a);
        kani::cover!(mandatory, "witness: fold classified as mandatory (two filters)");
        assert!(!mandatory || !empty_passes, "a fold reported as requiring at least one element cannot pass its count filters when empty");
    }

    /// `count one_of $v` with a list of integers.
    pub fn one_of_body(list: FieldValue) {
        let mut zero_listed = false;
        if let FieldValue::List(xs) = &list {
            let mut i = 0;
            while i < xs.len() {
                if r::num(&xs[i]) == Some(0) {
                    zero_listed = true;
                }
                i += 1;
            }
        }
        let mut vars: BTreeMap<Arc<str>, FieldValue> = BTreeMap::new();
        vars.insert(Arc::from("v"), list);
        let var = Argument::Variable(VariableRef {
            variable_name: Arc::from("v"),
            variable_type: Type::new_list_type(Type::new_named_type("Int", false), false),
        });
        let fold = mk_fold(vec![Operation::OneOf(FoldSpecificFieldKind::Count, var)]);
        let mandatory = h::fold_requires_at_least_one_element(&vars, &fold);
        std::mem::forget(fold);
        std::mem::forget(vars);
        kani::cover!(mandatory, "witness: fold classified as mandatory (one_of)");
        kani::cover!(zero_listed, "witness: zero is one of the listed counts");
        assert!(!mandatory || !zero_listed, "a fold whose count may be 0 per one_of is not mandatory");
    }

    pub mod probe {
        use super::*;
        g!(m_gt, 4, single_body(COp::Gt, true););
        g!(m_ge_u, 4, single_body(COp::Ge, false););
        g!(m_oneof, 5, one_of_body(mkv!([I, U])););
    }
}

/// Numeric-only view of a candidate (integer tags produce integer bounds): no recursion into the
/// value type, so a candidate of unknown variant stays cheap to inspect.
pub mod numview {
    use super::*;

    fn nb_start(b: Bound<&FieldValue>, p: i128) -> bool {
        match b {
            Bound::Unbounded => true,
            Bound::Included(s) => match r::num(s) { Some(x) => x <= p, None => false },
            Bound::Excluded(s) => match r::num(s) { Some(x) => x < p, None => false },
        }
    }
    fn nb_end(b: Bound<&FieldValue>, p: i128) -> bool {
        match b {
            Bound::Unbounded => true,
            Bound::Included(e) => match r::num(e) { Some(x) => p <= x, None => false },
            Bound::Excluded(e) => match r::num(e) { Some(x) => p < x, None => false },
        }
    }
    /// is the integer `p` a member of the candidate?
    pub fn member_num(c: &CandidateValue<FieldValue>, p: i128) -> bool {
        match c {
            CandidateValue::Impossible => false,
            CandidateValue::All => true,
            CandidateValue::Single(v) => r::num(v) == Some(p),
            CandidateValue::Multiple(vs) => {
                let mut found = false;
                let mut i = 0;
                while i < vs.len() {
                    if r::num(&vs[i]) == Some(p) { found = true; }
                    i += 1;
                }
                found
            }
            CandidateValue::Range(rg) => nb_start(rg.start_bound(), p) && nb_end(rg.end_bound(), p),
            _ => false,
        }
    }

    pub fn passes_num(op: Op, p: i128, a: i128) -> bool {
        match op {
            Op::Eq => p == a, Op::Ne => p != a, Op::Lt => p < a, Op::Le => p <= a, Op::Gt => p > a, Op::Ge => p >= a,
            _ => panic!("not a numeric comparison"),
        }
    }

    pub fn dyn_body(op: Op, signed_tag: bool) {
        let (tag, a): (FieldValue, i128) = if signed_tag { let a: i64 = kani::any(); (FieldValue::Int64(a), a as i128) } else { let a: u64 = kani::any(); (FieldValue::Uint64(a), a as i128) };
        let ps: i64 = kani::any();
        let p = ps as i128;
        let ok = passes_num(op, p, a);
        let operation = mk_unit_op(op);
        let cand = h::dynamic_candidate(&operation, CandidateValue::All, Some(tag));
        let m = member_num(&cand, p);
        std::mem::forget(cand);
        kani::cover!(ok, "witness: property value passes the filter");
        kani::cover!(!m, "witness: hint excludes some value");
        assert!(!ok || m, "dynamic hint never excludes a value that passes the filter");
    }

    pub mod probe {
        use super::*;
        #[kani::proof]
        #[kani::unwind(1)]
        #[kani::stub(std::fmt::format, crate::stub_format)]
        #[kani::stub(std::sync::Arc::drop_slow, crate::stub_arc_drop_slow)]
        pub fn nv_ge_u1() {
            dyn_body(Op::Ge, true);
            kani::cover!(true, "witness: end of harness reached");
        }
        g!(nv_ge, 3, dyn_body(Op::Ge, true););
    }
}

pub mod probe {
    use super::*;

    #[kani::proof]
    #[kani::unwind(1)]
    #[kani::stub(std::fmt::format, crate::stub_format)]
    #[kani::stub(std::sync::Arc::drop_slow, crate::stub_arc_drop_slow)]
    pub fn dyn_ge_i_i_nodrop_u1() {
        dynamic_body(Op::Ge, mkv!(I), mkv!(I));
        kani::cover!(true, "witness: end of harness reached");
    }

    #[kani::proof]
    #[kani::unwind(2)]
    #[kani::stub(std::fmt::format, crate::stub_format)]
    #[kani::stub(std::sync::Arc::drop_slow, crate::stub_arc_drop_slow)]
    pub fn dyn_ge_i_i_nodrop() {
        dynamic_body(Op::Ge, mkv!(I), mkv!(I));
        kani::cover!(true, "witness: end of harness reached");
    }

    g!(dyn_ge_i_i, 4, dynamic_body(Op::Ge, mkv!(I), mkv!(I)););
    g!(dyn_lt_i_u, 4, dynamic_body(Op::Lt, mkv!(I), mkv!(U)););
    g!(dyn_eq_i_u, 4, dynamic_body(Op::Eq, mkv!(I), mkv!(U)););
    g!(sta_ge_i_i, 6, static_body(Op::Ge, true, mkv!(I), mkv!(I)););
    g!(sta_eq_i_u, 6, static_body(Op::Eq, true, mkv!(I), mkv!(U)););
}
