//! C13 (kernel) — outputs are typed as declared: the declared type itself.
//!
//! `ir/indexed.rs::get_output_type` computes the type a compiled query declares for an output
//! from the property's own type, whether its vertex is inside an `@optional` scope of its
//! component, and the enclosing `@fold`s. Documented rule (spec + doc comments): nullable when
//! produced inside `@optional`; one list level per enclosing `@fold`, innermost fold = innermost
//! list level; a fold's list is itself nullable exactly when that fold is inside `@optional`.

use trustfall_core::ir::{Type, verif_get_output_type};

use crate::tyshape::{self, MAXD, Nulls, mk_type, observe};

pub fn output_type_body(base: &str, d: usize, optional: bool, n_folds: usize) {
    let n = tyshape::any_nulls();
    let t = mk_type(base, d, &n);
    let folds: [bool; 2] = [kani::any(), kani::any()]; // outermost first
    let out = verif_get_output_type(optional, &t, &folds[..n_folds]);
    let o = observe(&out, d + n_folds);
    let ok = match o {
        None => false,
        Some(o) => {
            let mut r = true;
            let mut i = 0;
            // levels below the property type's own top level are untouched
            while i < d {
                if o[i] != n[i] {
                    r = false;
                }
                i += 1;
            }
            // the property type's top level becomes nullable inside @optional
            if o[d] != (n[d] || optional) {
                r = false;
            }
            // fold levels: innermost fold (last in the slice) is the innermost list level
            let mut k = 0;
            while k < n_folds {
                let level = d + 1 + k;
                let fold_index = n_folds - 1 - k;
                if o[level] != folds[fold_index] {
                    r = false;
                }
                k += 1;
            }
            r
        }
    };
    kani::cover!(ok, "witness: declared type as documented");
    std::mem::forget(out);
    std::mem::forget(t);
    assert!(ok, "declared output type: nullable inside @optional, one list level per @fold (nullable iff that fold is optional)");
}

/// Fold-count outputs: `Int!` at the fold's origin vertex, wrapped by the *enclosing* folds.
pub fn count_output_body(optional: bool, n_folds: usize) {
    let t = Type::new_named_type("Int", false);
    let folds: [bool; 2] = [kani::any(), kani::any()];
    let out = verif_get_output_type(optional, &t, &folds[..n_folds]);
    let o = observe(&out, n_folds);
    let ok = match o {
        None => false,
        Some(o) => {
            let mut r = o[0] == optional; // non-null integer outside optional scopes
            let mut k = 0;
            while k < n_folds {
                if o[1 + k] != folds[n_folds - 1 - k] {
                    r = false;
                }
                k += 1;
            }
            r
        }
    };
    std::mem::forget(out);
    std::mem::forget(t);
    assert!(ok, "a fold count is a non-null integer outside optional scopes, nullable inside");
}

pub mod quick {
    use super::*;
    g!(prop_d0_nofold, 6, output_type_body("T", 0, false, 0); output_type_body("T", 0, true, 0););
    g!(prop_d0_fold1, 6, output_type_body("T", 0, false, 1); output_type_body("T", 0, true, 1););
    g!(prop_d0_fold2, 6, output_type_body("T", 0, false, 2););
    g!(prop_d1_fold1, 6, output_type_body("T", 1, true, 1););
    g!(count_nofold, 8, count_output_body(false, 0); count_output_body(true, 0););
    g!(count_fold1, 8, count_output_body(false, 1););
}

pub mod thorough {
    use super::*;
    g!(prop_d0_fold2_opt, 6, output_type_body("T", 0, true, 2););
    g!(prop_d1_nofold, 6, output_type_body("T", 1, false, 0); output_type_body("T", 1, true, 0););
    g!(prop_d1_fold1_req, 6, output_type_body("T", 1, false, 1););
    g!(prop_d1_fold2, 6, output_type_body("T", 1, false, 2); output_type_body("T", 1, true, 2););
    g!(prop_int_fold1, 8, output_type_body("Int", 0, true, 1););
    g!(prop_string_fold2, 10, output_type_body("String", 0, false, 2););
    g!(count_fold1_opt, 8, count_output_body(true, 1););
    g!(count_fold2, 8, count_output_body(false, 2); count_output_body(true, 2););
}
