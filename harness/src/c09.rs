//! C09 — executing an accepted query never panics (value-level kernel).
//!
//! Decomposition, each lemma decided by the solver on the real code:
//!  L1  for every property type and operator, the frontend's own `infer_variable_type` +
//!      `operand_types_valid` accept a `$variable` argument without panicking and infer a type
//!      of the base and list depth the operator kernels expect (nullability free);
//!      the same relation holds for every tag type that `operand_types_valid` accepts.
//!  L2  for every pair of operand shapes of those bases / depths (nulls anywhere), the operator
//!      kernels of `filtering.rs` return without reaching `unreachable!` / `expect` / `unwrap`.
//!  L3  `usize_from_field_value` (fold-count limits) never panics on any integer the
//!      count-filter variable types admit and converts exactly, clamping negatives to 0.
//! The link from "the engine accepted the argument" to "the value has one of the shapes of L2"
//! is C12 (`is_valid_value` == fits).

use std::sync::Arc;

use trustfall_core::frontend::verif_filters as vf;
use trustfall_core::interpreter::execution::verif_hooks as x;
use trustfall_core::interpreter::verif_filtering as f;
use trustfall_core::ir::{Argument, FieldValue, LocalField, Operation, Type, VariableRef};

use crate::mkv;
use crate::tyshape::{self, Base, Nulls, mk_type, observe};

#[derive(Clone, Copy, PartialEq, Eq)]
pub enum Op {
    Eq,
    Ne,
    Lt,
    Le,
    Gt,
    Ge,
    Contains,
    NotContains,
    OneOf,
    NotOneOf,
    HasPrefix,
    NotHasPrefix,
    HasSuffix,
    NotHasSuffix,
    HasSubstring,
    NotHasSubstring,
}

fn mk_op<L, R>(op: Op, l: L, r: R) -> Operation<L, R>
where
    L: std::fmt::Debug + Clone + PartialEq + Eq,
    R: std::fmt::Debug + Clone + PartialEq + Eq,
{
    match op {
        Op::Eq => Operation::Equals(l, r),
        Op::Ne => Operation::NotEquals(l, r),
        Op::Lt => Operation::LessThan(l, r),
        Op::Le => Operation::LessThanOrEqual(l, r),
        Op::Gt => Operation::GreaterThan(l, r),
        Op::Ge => Operation::GreaterThanOrEqual(l, r),
        Op::Contains => Operation::Contains(l, r),
        Op::NotContains => Operation::NotContains(l, r),
        Op::OneOf => Operation::OneOf(l, r),
        Op::NotOneOf => Operation::NotOneOf(l, r),
        Op::HasPrefix => Operation::HasPrefix(l, r),
        Op::NotHasPrefix => Operation::NotHasPrefix(l, r),
        Op::HasSuffix => Operation::HasSuffix(l, r),
        Op::NotHasSuffix => Operation::NotHasSuffix(l, r),
        Op::HasSubstring => Operation::HasSubstring(l, r),
        Op::NotHasSubstring => Operation::NotHasSubstring(l, r),
    }
}

/// Expected list depth of the inferred variable type, `None` = the frontend must refuse.
fn expected_depth(op: Op, d: usize) -> Option<usize> {
    match op {
        Op::Eq | Op::Ne | Op::Lt | Op::Le | Op::Gt | Op::Ge => Some(d),
        Op::Contains | Op::NotContains => {
            if d >= 1 {
                Some(d - 1)
            } else {
                None
            }
        }
        Op::OneOf | Op::NotOneOf => Some(d + 1),
        _ => Some(0),
    }
}

/// L1 for `$variable` arguments.
pub fn infer_body(base: &str, is_string: bool, orderable: bool, d: usize, op: Op) {
    let n = tyshape::any_nulls();
    let t = mk_type(base, d, &n);
    let bare: Operation<(), ()> = mk_op(op, (), ());
    let inferred_res = vf::infer_variable_type(t.clone(), &bare);
    let inferred = match &inferred_res {
        Ok(v) => Some(v.clone()),
        Err(_) => None,
    };
    std::mem::forget(inferred_res); // error values own Strings: keep their drop glue out
    let exp_depth = expected_depth(op, d);
    let mut shape_ok = inferred.is_some() == exp_depth.is_some();
    let mut nonnull_where_required = true;
    let mut accepted = false;
    if let (Some(v), Some(ed)) = (&inferred, exp_depth) {
        let o = observe(v, ed);
        shape_ok = o.is_some();
        if let Some(o) = o {
            // the ordering operators and the count-limit code rely on a non-null top level
            if matches!(op, Op::Lt | Op::Le | Op::Gt | Op::Ge | Op::OneOf | Op::NotOneOf) && o[ed] {
                nonnull_where_required = false;
            }
            if matches!(op, Op::HasPrefix | Op::NotHasPrefix | Op::HasSuffix | Op::NotHasSuffix | Op::HasSubstring | Op::NotHasSubstring)
                && o[0]
            {
                nonnull_where_required = false;
            }
        }
        let full = mk_op(
            op,
            LocalField { field_name: Arc::from("p"), field_type: t.clone() },
            Argument::Variable(VariableRef { variable_name: Arc::from("v"), variable_type: v.clone() }),
        );
        let res = vf::operand_types_valid(&full, None);
        accepted = res.is_ok();
        std::mem::forget(res);
        std::mem::forget(full);
    }
    kani::cover!(accepted, "witness: filter accepted by the frontend");
    std::mem::forget(inferred);
    std::mem::forget(t);
    assert!(shape_ok, "inferred variable type has the base/depth the operator kernel expects");
    assert!(nonnull_where_required, "inferred variable type is non-null where the kernels require it");
    if accepted {
        let is_ordering = matches!(op, Op::Lt | Op::Le | Op::Gt | Op::Ge);
        let is_stringop = matches!(
            op,
            Op::HasPrefix | Op::NotHasPrefix | Op::HasSuffix | Op::NotHasSuffix | Op::HasSubstring | Op::NotHasSubstring
        );
        assert!(!is_ordering || orderable, "ordering filters are only accepted on orderable bases");
        assert!(!is_stringop || (is_string && d == 0), "string filters are only accepted on String properties");
    }
}

/// L1 for `%tag` arguments: whenever the frontend accepts (property type, tag type), the two
/// have the base / depth relation the kernels expect.
pub fn tag_body(base_p: &str, base_t: &str, same_base: bool, p_is_string: bool, t_is_string: bool, p_orderable: bool, dp: usize, dt: usize, op: Op) {
    let (np, nt) = (tyshape::any_nulls(), tyshape::any_nulls());
    let tp = mk_type(base_p, dp, &np);
    let tt = mk_type(base_t, dt, &nt);
    let full = mk_op(
        op,
        LocalField { field_name: Arc::from("p"), field_type: tp },
        Argument::Tag(trustfall_core::ir::FieldRef::ContextField(trustfall_core::ir::ContextField {
            vertex_id: trustfall_core::ir::Vid::new(std::num::NonZeroUsize::new(1).unwrap()),
            field_name: Arc::from("q"),
            field_type: tt,
        })),
    );
    let res = vf::operand_types_valid(&full, Some("t"));
    let accepted = res.is_ok();
    std::mem::forget(res);
    std::mem::forget(full);
    kani::cover!(accepted, "witness: filter accepted by the frontend");
    kani::cover!(!accepted, "witness: filter refused by the frontend");
    if accepted {
        let rel = match expected_depth(op, dp) {
            None => false,
            Some(ed) => {
                let is_stringop = expected_depth(op, 5) == Some(0);
                if is_stringop { p_is_string && t_is_string && dp == 0 && dt == 0 } else { same_base && ed == dt }
            }
        };
        assert!(rel, "accepted tag argument has the base/depth the operator kernel expects");
        assert!(!matches!(op, Op::Lt | Op::Le | Op::Gt | Op::Ge) || p_orderable, "ordering needs an orderable base");
    }
}

/// L2: the kernel for `op` returns (no panic) on this pair of shapes, whatever the payloads.
pub fn nopanic_body(op: Op, a: FieldValue, b: FieldValue) {
    let r = match op {
        Op::Eq => f::equals(&a, &b),
        Op::Ne => f::not_equals(&a, &b),
        Op::Lt => f::less_than(&a, &b),
        Op::Le => f::less_than_or_equal(&a, &b),
        Op::Gt => f::greater_than(&a, &b),
        Op::Ge => f::greater_than_or_equal(&a, &b),
        Op::Contains => f::contains(&a, &b),
        Op::NotContains => f::not_contains(&a, &b),
        Op::OneOf => f::one_of(&a, &b),
        Op::NotOneOf => f::not_one_of(&a, &b),
        Op::HasPrefix => f::has_prefix(&a, &b),
        Op::NotHasPrefix => f::not_has_prefix(&a, &b),
        Op::HasSuffix => f::has_suffix(&a, &b),
        Op::NotHasSuffix => f::not_has_suffix(&a, &b),
        Op::HasSubstring => f::has_substring(&a, &b),
        Op::NotHasSubstring => f::not_has_substring(&a, &b),
    };
    kani::cover!(r, "witness: operator can return true");
    kani::cover!(!r, "witness: operator can return false");
    std::mem::forget(a);
    std::mem::forget(b);
}

/// All four ordering operators (they share one dispatch macro) on one pair of shapes.
pub fn nopanic_ordering_body(a: FieldValue, b: FieldValue) {
    let r = (f::less_than(&a, &b), f::less_than_or_equal(&a, &b), f::greater_than(&a, &b), f::greater_than_or_equal(&a, &b));
    std::mem::forget(a);
    std::mem::forget(b);
}

pub mod l3 {
    use super::*;

    /// L3: fold-count conversion.
    #[kani::proof]
    #[kani::unwind(2)]
    pub fn usize_from_int64() {
        let i: i64 = kani::any();
        let v = FieldValue::Int64(i);
        let r = x::usize_from_field_value(&v);
        kani::cover!(i < 0, "witness: negative count argument");
            kani::cover!(true, "witness: end of harness reached");
        assert!(r == Some(if i < 0 { 0 } else { i as usize }), "negative clamps to 0, otherwise exact");
    }

    #[kani::proof]
    #[kani::unwind(2)]
    pub fn usize_from_uint64() {
        let u: u64 = kani::any();
        let v = FieldValue::Uint64(u);
        let r = x::usize_from_field_value(&v);
        kani::cover!(u > i64::MAX as u64, "witness: count argument beyond i64");
            kani::cover!(true, "witness: end of harness reached");
        assert!(r == Some(u as usize), "exact");
    }

    #[kani::proof]
    #[kani::unwind(2)]
    pub fn usize_from_null() {
        let r = x::usize_from_field_value(&FieldValue::Null);
            kani::cover!(true, "witness: end of harness reached");
        assert!(r.is_none());
    }
}

include!("gen_c09.rs");
