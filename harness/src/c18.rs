//! C18 — decoding rows into structs is faithful (numeric / bool / option targets).
//!
//! Goes through the repository's `FieldValueDeserializer` (reached with the public
//! `IntoDeserializer` impl on `FieldValue`) and serde's own primitive `Deserialize` impls.

use serde::Deserialize;
use serde::de::IntoDeserializer;
use trustfall_core::ir::FieldValue;

use crate::stub_format;

/// integer target from an integer source: Ok(v) iff representable, and then v is the value.
macro_rules! int_from_int {
    ($name:ident, $target:ty, $variant:ident, $src:ty) => {
        #[kani::proof]
        #[kani::unwind(4)]
        #[kani::stub(std::fmt::format, stub_format)]
        pub fn $name() {
            let x: $src = kani::any();
            let r = <$target as Deserialize>::deserialize(FieldValue::$variant(x).into_deserializer());
            let fits = (x as i128) >= (<$target>::MIN as i128) && (x as i128) <= (<$target>::MAX as i128);
            kani::cover!(fits, "witness: value representable in target");
            kani::cover!(!fits, "witness: value not representable in target");
            let ok = match &r {
                Ok(v) => fits && (*v as i128) == (x as i128),
                Err(_) => !fits,
            };
            std::mem::forget(r);
            kani::cover!(true, "witness: end of harness reached");
                    assert!(ok, "integer decode is exact or an error, never wrapped");
        }
    };
}

/// Option<integer> target: Some(exact) or error; never None for a non-null source.
macro_rules! opt_int_from_int {
    ($name:ident, $target:ty, $variant:ident, $src:ty) => {
        #[kani::proof]
        #[kani::unwind(4)]
        #[kani::stub(std::fmt::format, stub_format)]
        pub fn $name() {
            let x: $src = kani::any();
            let r = <Option<$target> as Deserialize>::deserialize(FieldValue::$variant(x).into_deserializer());
            let fits = (x as i128) >= (<$target>::MIN as i128) && (x as i128) <= (<$target>::MAX as i128);
            let ok = match &r {
                Ok(Some(v)) => fits && (*v as i128) == (x as i128),
                Ok(None) => false,
                Err(_) => !fits,
            };
            std::mem::forget(r);
            kani::cover!(true, "witness: end of harness reached");
                    assert!(ok, "Option<integer> decode is Some(exact) or an error");
        }
    };
}

/// integer target from a non-integer source is an error (never a fabricated number).
macro_rules! int_from_other {
    ($name:ident, $target:ty, $value:expr) => {
        #[kani::proof]
        #[kani::unwind(4)]
        #[kani::stub(std::fmt::format, stub_format)]
        pub fn $name() {
            let v: FieldValue = $value;
            let r = <$target as Deserialize>::deserialize(v.into_deserializer());
            let is_err = r.is_err();
            std::mem::forget(r);
            kani::cover!(true, "witness: end of harness reached");
                    assert!(is_err, "integer target from a non-integer source must be an error");
        }
    };
}

/// integer target from a float source: the property allows an error (today's behaviour) or the
/// *exact* integer — never a rounded, saturated or wrapped one. `f as i128` is exact for every
/// whole f64 of magnitude < 2^127; `v as f64 == f` alone would accept 2^63 -> i64::MAX.
macro_rules! int_from_float {
    ($name:ident, $target:ty) => {
        #[kani::proof]
        #[kani::unwind(4)]
        #[kani::stub(std::fmt::format, stub_format)]
        pub fn $name() {
            let f: f64 = crate::shapes::any_finite();
            let r = <$target as Deserialize>::deserialize(FieldValue::Float64(f).into_deserializer());
            let ok = match &r {
                Err(_) => true,
                Ok(v) => {
                    let w = *v as i128;
                    (w as f64) == f && (f as i128) == w
                }
            };
            kani::cover!(r.is_err(), "witness: float source refused by an integer target");
            std::mem::forget(r);
            kani::cover!(true, "witness: end of harness reached");
            assert!(ok, "integer target from a float source is an error or the exact integer, never rounded / saturated");
        }
    };
}

pub mod quick {
    use super::*;

    int_from_float!(i64_from_float, i64);
    int_from_float!(u8_from_float, u8);

    int_from_int!(i8_from_i64, i8, Int64, i64);
    int_from_int!(i16_from_i64, i16, Int64, i64);
    int_from_int!(i32_from_i64, i32, Int64, i64);
    int_from_int!(i64_from_i64, i64, Int64, i64);
    int_from_int!(u8_from_i64, u8, Int64, i64);
    int_from_int!(u16_from_i64, u16, Int64, i64);
    int_from_int!(u32_from_i64, u32, Int64, i64);
    int_from_int!(u64_from_i64, u64, Int64, i64);
    int_from_int!(usize_from_i64, usize, Int64, i64);
    int_from_int!(isize_from_i64, isize, Int64, i64);

    int_from_int!(i8_from_u64, i8, Uint64, u64);
    int_from_int!(i16_from_u64, i16, Uint64, u64);
    int_from_int!(i32_from_u64, i32, Uint64, u64);
    int_from_int!(i64_from_u64, i64, Uint64, u64);
    int_from_int!(u8_from_u64, u8, Uint64, u64);
    int_from_int!(u16_from_u64, u16, Uint64, u64);
    int_from_int!(u32_from_u64, u32, Uint64, u64);
    int_from_int!(u64_from_u64, u64, Uint64, u64);
    int_from_int!(usize_from_u64, usize, Uint64, u64);
    int_from_int!(isize_from_u64, isize, Uint64, u64);

    opt_int_from_int!(opt_i32_from_i64, i32, Int64, i64);
    opt_int_from_int!(opt_u8_from_u64, u8, Uint64, u64);
    opt_int_from_int!(opt_i64_from_u64, i64, Uint64, u64);
    opt_int_from_int!(opt_u64_from_i64, u64, Int64, i64);

    #[kani::proof]
    #[kani::unwind(4)]
    pub fn opt_from_null() {
        let r = <Option<i64> as Deserialize>::deserialize(FieldValue::Null.into_deserializer());
        let ok = matches!(r, Ok(None));
        std::mem::forget(r);
        kani::cover!(true, "witness: end of harness reached");
            assert!(ok, "null decodes to None");
    }

    #[kani::proof]
    #[kani::unwind(4)]
    pub fn bool_identity() {
        let b: bool = kani::any();
        let r = <bool as Deserialize>::deserialize(FieldValue::Boolean(b).into_deserializer());
        let ok = matches!(r, Ok(v) if v == b);
        std::mem::forget(r);
        kani::cover!(true, "witness: end of harness reached");
            assert!(ok, "bool decodes to itself");
    }

    #[kani::proof]
    #[kani::unwind(4)]
    pub fn f64_identity() {
        let f = crate::shapes::any_finite();
        let r = <f64 as Deserialize>::deserialize(FieldValue::Float64(f).into_deserializer());
        let ok = matches!(r, Ok(v) if v.to_bits() == f.to_bits());
        std::mem::forget(r);
        kani::cover!(true, "witness: end of harness reached");
            assert!(ok, "f64 decodes bit-exactly");
    }

    int_from_other!(i64_from_null, i64, FieldValue::Null);
    int_from_other!(u8_from_null, u8, FieldValue::Null);
    int_from_other!(i64_from_bool, i64, FieldValue::Boolean(kani::any()));
    int_from_other!(u32_from_bool, u32, FieldValue::Boolean(kani::any()));
}

/// `Vec<i64>` from a two-element list of (Int64, Uint64): element-wise exact, or an error as soon
/// as one element does not fit.
pub fn vec_i64_body() {
    let a: i64 = kani::any();
    let b: u64 = kani::any();
    let l = FieldValue::List(std::sync::Arc::new([FieldValue::Int64(a), FieldValue::Uint64(b)]));
    let r = <Vec<i64> as Deserialize>::deserialize(l.into_deserializer());
    let fits = b <= i64::MAX as u64;
    kani::cover!(!fits, "witness: value not representable in target");
    let ok = match &r {
        Ok(v) => fits && v.len() == 2 && v[0] == a && v[1] as i128 == b as i128,
        Err(_) => !fits,
    };
    std::mem::forget(r);
    assert!(ok, "Vec<i64> decode is element-wise exact or an error");
}

/// `Vec<u8>` from `[Int64, Int64]`.
pub fn vec_u8_body() {
    let a: i64 = kani::any();
    let b: i64 = kani::any();
    let l = FieldValue::List(std::sync::Arc::new([FieldValue::Int64(a), FieldValue::Int64(b)]));
    let r = <Vec<u8> as Deserialize>::deserialize(l.into_deserializer());
    let fits = a >= 0 && a <= 255 && b >= 0 && b <= 255;
    kani::cover!(fits, "witness: value representable in target");
    let ok = match &r {
        Ok(v) => fits && v.len() == 2 && v[0] as i64 == a && v[1] as i64 == b,
        Err(_) => !fits,
    };
    std::mem::forget(r);
    assert!(ok, "Vec<u8> decode is element-wise exact or an error");
}

/// tuple `(i64, u64)` from a two-element list; a list of another length is an error.
pub fn tuple_body() {
    let a: i64 = kani::any();
    let b: u64 = kani::any();
    let l = FieldValue::List(std::sync::Arc::new([FieldValue::Int64(a), FieldValue::Uint64(b)]));
    let r = <(i64, u64) as Deserialize>::deserialize(l.into_deserializer());
    let ok = matches!(&r, Ok((x, y)) if *x == a && *y == b);
    std::mem::forget(r);
    let l1 = FieldValue::List(std::sync::Arc::new([FieldValue::Int64(a)]));
    let r1 = <(i64, u64) as Deserialize>::deserialize(l1.into_deserializer());
    let short_is_err = r1.is_err();
    std::mem::forget(r1);
    let l3 = FieldValue::List(std::sync::Arc::new([FieldValue::Int64(a), FieldValue::Uint64(b), FieldValue::Int64(a)]));
    let r3 = <(i64, u64) as Deserialize>::deserialize(l3.into_deserializer());
    let long_is_err = r3.is_err();
    std::mem::forget(r3);
    assert!(ok, "tuple decode is position-wise exact");
    assert!(short_is_err, "a shorter list is not a tuple");
    assert!(long_is_err, "a longer list is not silently truncated into a tuple");
}

/// A sequence target from a source that is not a list is an error (never a fabricated list).
pub fn vec_from_non_list_body(v: FieldValue) {
    let r = <Vec<i64> as Deserialize>::deserialize(v.into_deserializer());
    let is_err = r.is_err();
    std::mem::forget(r);
    assert!(is_err, "Vec target from a non-list source must be an error");
}

/// `Vec<Vec<i64>>` from a flat list of integers is an error (elements are not lists).
pub fn nested_vec_from_flat_body() {
    let l = FieldValue::List(std::sync::Arc::new([FieldValue::Int64(kani::any())]));
    let r = <Vec<Vec<i64>> as Deserialize>::deserialize(l.into_deserializer());
    let is_err = r.is_err();
    std::mem::forget(r);
    assert!(is_err, "Vec<Vec<_>> target from a flat list must be an error");
}

/// `String` / `Option<String>` targets from string values of N bytes.
pub fn string_body<const N: usize>() {
    let s = FieldValue::String(crate::shapes::any_ascii_arc_str::<N>());
    let mut bytes = [0u8; 4];
    if let FieldValue::String(x) = &s {
        let mut i = 0;
        while i < N {
            bytes[i] = x.as_bytes()[i];
            i += 1;
        }
    }
    let r = <String as Deserialize>::deserialize(s.into_deserializer());
    let ok = match &r {
        Ok(v) => {
            let mut same = v.len() == N;
            let mut i = 0;
            while same && i < N {
                if v.as_bytes()[i] != bytes[i] {
                    same = false;
                }
                i += 1;
            }
            same
        }
        Err(_) => false,
    };
    std::mem::forget(r);
    assert!(ok, "String decodes to the same bytes");
}

/// string target from an integer is an error, and vice versa is covered by int_from_other.
pub fn string_from_int_body() {
    let r = <String as Deserialize>::deserialize(FieldValue::Int64(kani::any()).into_deserializer());
    let is_err = r.is_err();
    std::mem::forget(r);
    assert!(is_err, "String target from an integer source must be an error");
}

pub mod containers {
    use super::*;
    g!(vec_i64, 6, vec_i64_body(););
    g!(vec_u8, 6, vec_u8_body(););
    g!(tuple_i64_u64, 6, tuple_body(););
    g!(string_targets, 6, string_body::<0>(); string_body::<1>(); string_body::<2>(););
    g!(string_from_int, 6, string_from_int_body(););
    g!(vec_from_non_list, 6,
        vec_from_non_list_body(crate::mkv!(I));
        vec_from_non_list_body(crate::mkv!(U));
        vec_from_non_list_body(crate::mkv!(B));
        vec_from_non_list_body(crate::mkv!(S1));
        vec_from_non_list_body(crate::mkv!(N));
    );
    g!(nested_vec_from_flat, 6, nested_vec_from_flat_body(););
}

pub mod thorough {
    use super::*;

    opt_int_from_int!(opt_i8_from_i64, i8, Int64, i64);
    opt_int_from_int!(opt_i16_from_i64, i16, Int64, i64);
    opt_int_from_int!(opt_u16_from_i64, u16, Int64, i64);
    opt_int_from_int!(opt_u32_from_i64, u32, Int64, i64);
    opt_int_from_int!(opt_usize_from_i64, usize, Int64, i64);
    opt_int_from_int!(opt_i8_from_u64, i8, Uint64, u64);
    opt_int_from_int!(opt_i16_from_u64, i16, Uint64, u64);
    opt_int_from_int!(opt_i32_from_u64, i32, Uint64, u64);
    opt_int_from_int!(opt_u16_from_u64, u16, Uint64, u64);
    opt_int_from_int!(opt_u32_from_u64, u32, Uint64, u64);
    opt_int_from_int!(opt_usize_from_u64, usize, Uint64, u64);

    int_from_float!(u64_from_float, u64);
    int_from_float!(i32_from_float, i32);
    int_from_float!(i16_from_float, i16);
    int_from_float!(usize_from_float, usize);
    int_from_other!(i64_from_str1, i64, crate::mkv!(S1));
    int_from_other!(u8_from_str1, u8, crate::mkv!(S1));

    /// bool target from an integer source is an error.
    #[kani::proof]
    #[kani::unwind(4)]
    #[kani::stub(std::fmt::format, stub_format)]
    pub fn bool_from_int() {
        let r = <bool as Deserialize>::deserialize(FieldValue::Int64(kani::any()).into_deserializer());
        let is_err = r.is_err();
        std::mem::forget(r);
        kani::cover!(true, "witness: end of harness reached");
            assert!(is_err);
    }
}
