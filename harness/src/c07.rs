//! C07 — filter operators decide exactly their mathematical definition.

use std::cmp::Ordering;

use trustfall_core::interpreter::verif_filtering as f;
use trustfall_core::ir::FieldValue;

use crate::refmodel as r;
use crate::shapes::{self, S};
use crate::{mkv, shape};

/// `=`, `!=`, `<`, `<=`, `>`, `>=`, `is_null` on one pair of concrete shapes, every payload.
/// `ordering`: the pair is in the domain of the ordering operators (decided by rustc from the
/// shapes); outside it the ordering operators are not called at all.
pub fn cmp_body(a: FieldValue, b: FieldValue, ordering: bool, a_is_null: bool) {
    let exp_eq = r::ref_eq(&a, &b);
    let got_eq = f::equals(&a, &b);
    let got_ne = f::not_equals(&a, &b);
    let got_null_a = f::is_null(&a);

    let (lt, le, gt, ge) = if ordering {
        (
            f::less_than(&a, &b),
            f::less_than_or_equal(&a, &b),
            f::greater_than(&a, &b),
            f::greater_than_or_equal(&a, &b),
        )
    } else {
        (false, false, false, false)
    };
    let exp_cmp = r::ref_cmp(&a, &b);
    let null_involved = r::is_null(&a) || r::is_null(&b);

    // witnesses against vacuity
    kani::cover!(exp_eq, "witness: equal operands");
    kani::cover!(!exp_eq, "witness: unequal operands");
    if let (Some(x), Some(y)) = (r::num(&a), r::num(&b)) {
        kani::cover!(x < 0 && y > i64::MAX as i128, "witness: negative vs beyond-i64");
        kani::cover!(y < 0 && x > i64::MAX as i128, "witness: beyond-i64 vs negative");
    }
    if ordering && !null_involved {
        kani::cover!(matches!(exp_cmp, Some(Ordering::Less)), "witness: ordered less");
        kani::cover!(matches!(exp_cmp, Some(Ordering::Greater)), "witness: ordered greater");
    }

    std::mem::forget(a);
    std::mem::forget(b);

    assert!(got_eq == exp_eq, "equals");
    assert!(got_ne == !exp_eq, "not_equals is the complement of equals");
    assert!(got_null_a == a_is_null, "is_null");
    if ordering {
        if null_involved {
            assert!(!lt && !le && !gt && !ge, "ordering with a null operand is false");
        } else if let Some(o) = exp_cmp {
            assert!(lt == (o == Ordering::Less), "less_than");
            assert!(le == (o != Ordering::Greater), "less_than_or_equal");
            assert!(gt == (o == Ordering::Greater), "greater_than");
            assert!(ge == (o != Ordering::Less), "greater_than_or_equal");
        }
    }
}

/// One (shape, shape) comparison obligation; the admissibility flags are evaluated by rustc.
macro_rules! cmp_stmt {
    ($a:tt, $b:tt) => {{
        const A: S = shape!($a);
        const B: S = shape!($b);
        const ORD: bool = shapes::orderable_pair(&A, &B);
        const A_NULL: bool = shapes::is_null_shape(&A);
        cmp_body(mkv!($a), mkv!($b), ORD, A_NULL)
    }};
}

fn bytes_of(v: &FieldValue) -> Option<&[u8]> {
    match v {
        FieldValue::String(s) => Some(s.as_bytes()),
        _ => None,
    }
}

/// one_of / not_one_of / contains / not_contains: `l one_of list` == `list contains l`
/// == exists i: l = list[i]; a null list is "false".
pub fn membership_body(l: FieldValue, list: FieldValue, single_elem: bool) {
    let exp = match &list {
        FieldValue::List(xs) => {
            let mut r = false;
            let mut i = 0;
            while i < xs.len() {
                if r::ref_eq(&l, &xs[i]) {
                    r = true;
                }
                i += 1;
            }
            r
        }
        _ => false,
    };
    let got_one_of = f::one_of(&l, &list);
    let got_not_one_of = f::not_one_of(&l, &list);
    let got_contains = f::contains(&list, &l);
    let got_not_contains = f::not_contains(&list, &l);
    // `=` and one_of with a single-element list agree (they use different equality routines)
    let eq_single = match &list {
        FieldValue::List(xs) if single_elem => Some(f::equals(&l, &xs[0])),
        _ => None,
    };
    kani::cover!(exp, "witness: element is a member");
    kani::cover!(!exp, "witness: element is not a member");
    std::mem::forget(l);
    std::mem::forget(list);
    assert!(got_one_of == exp, "one_of");
    assert!(got_not_one_of == !exp, "not_one_of is the complement");
    assert!(got_contains == exp, "contains");
    assert!(got_not_contains == !exp, "not_contains is the complement");
    if let Some(e) = eq_single {
        assert!(e == got_one_of, "'=' agrees with one_of on a single-element list");
    }
}

/// has_prefix / has_suffix / has_substring and their negations; a null operand gives false.
pub fn string_ops_body(a: FieldValue, b: FieldValue) {
    let (exp_p, exp_s, exp_sub) = match (bytes_of(&a), bytes_of(&b)) {
        (Some(x), Some(y)) => (r::is_prefix(x, y), r::is_suffix(x, y), r::is_substring(x, y)),
        _ => (false, false, false),
    };
    let got = (f::has_prefix(&a, &b), f::has_suffix(&a, &b), f::has_substring(&a, &b));
    let neg = (f::not_has_prefix(&a, &b), f::not_has_suffix(&a, &b), f::not_has_substring(&a, &b));
    kani::cover!(exp_sub && !exp_p, "witness: substring that is not a prefix");
    kani::cover!(exp_p, "witness: prefix holds");
    kani::cover!(!exp_sub, "witness: not a substring");
    std::mem::forget(a);
    std::mem::forget(b);
    assert!(got.0 == exp_p, "has_prefix");
    assert!(got.1 == exp_s, "has_suffix");
    assert!(got.2 == exp_sub, "has_substring");
    assert!(neg.0 == !exp_p && neg.1 == !exp_s && neg.2 == !exp_sub, "negations are complements");
}

include!("gen_c07.rs");
