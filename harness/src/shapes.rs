//! Concrete value shapes with symbolic payloads.
//!
//! A shape fixes variants and lengths. `shape!(..)` turns a shape written as tokens into a
//! `const S` (used by `const fn` predicates, evaluated by rustc), and `mkv!(..)` turns the same
//! tokens into straight-line construction code that fills every integer, float, boolean and
//! string byte with `kani::any()`. No enum discriminant of `FieldValue` is ever symbolic and no
//! shape is read from memory at verification time (both were measured to make CBMC explode).
//!
//! Token syntax: `N` null, `I` Int64, `U` Uint64, `F` finite Float64, `B` Boolean,
//! `S0..S4` String of 0..4 ASCII bytes, `E0..E2` Enum, `[a, b, ..]` list (at most 3 elements).

use std::sync::Arc;

use trustfall_core::ir::FieldValue;

#[derive(Clone, Copy, Debug)]
pub enum S {
    Null,
    I,
    U,
    F,
    B,
    Str(usize),
    En(usize),
    L(&'static [S]),
}

#[macro_export]
macro_rules! shape {
    (N) => { $crate::shapes::S::Null };
    (I) => { $crate::shapes::S::I };
    (U) => { $crate::shapes::S::U };
    (F) => { $crate::shapes::S::F };
    (B) => { $crate::shapes::S::B };
    (S0) => { $crate::shapes::S::Str(0) };
    (S1) => { $crate::shapes::S::Str(1) };
    (S2) => { $crate::shapes::S::Str(2) };
    (S3) => { $crate::shapes::S::Str(3) };
    (S4) => { $crate::shapes::S::Str(4) };
    (E0) => { $crate::shapes::S::En(0) };
    (E1) => { $crate::shapes::S::En(1) };
    (E2) => { $crate::shapes::S::En(2) };
    ([ $($e:tt),* ]) => { $crate::shapes::S::L(&[ $( $crate::shape!($e) ),* ]) };
}

#[macro_export]
macro_rules! mkv {
    (N) => { trustfall_core::ir::FieldValue::Null };
    (I) => { trustfall_core::ir::FieldValue::Int64(kani::any()) };
    (U) => { trustfall_core::ir::FieldValue::Uint64(kani::any()) };
    (F) => { trustfall_core::ir::FieldValue::Float64($crate::shapes::any_finite()) };
    (B) => { trustfall_core::ir::FieldValue::Boolean(kani::any()) };
    (S0) => { trustfall_core::ir::FieldValue::String($crate::shapes::any_ascii_arc_str::<0>()) };
    (S1) => { trustfall_core::ir::FieldValue::String($crate::shapes::any_ascii_arc_str::<1>()) };
    (S2) => { trustfall_core::ir::FieldValue::String($crate::shapes::any_ascii_arc_str::<2>()) };
    (S3) => { trustfall_core::ir::FieldValue::String($crate::shapes::any_ascii_arc_str::<3>()) };
    (S4) => { trustfall_core::ir::FieldValue::String($crate::shapes::any_ascii_arc_str::<4>()) };
    (E0) => { trustfall_core::ir::FieldValue::Enum($crate::shapes::any_ascii_arc_str::<0>()) };
    (E1) => { trustfall_core::ir::FieldValue::Enum($crate::shapes::any_ascii_arc_str::<1>()) };
    (E2) => { trustfall_core::ir::FieldValue::Enum($crate::shapes::any_ascii_arc_str::<2>()) };
    ([ $($e:tt),* ]) => {
        trustfall_core::ir::FieldValue::List(
            std::sync::Arc::new([ $( $crate::mkv!($e) ),* ]) as std::sync::Arc<[trustfall_core::ir::FieldValue]>
        )
    };
}

/// `N` symbolic ASCII bytes as an `Arc<str>`.
pub fn any_ascii_arc_str<const N: usize>() -> Arc<str> {
    let buf: [u8; N] = kani::any();
    let mut i = 0;
    while i < N {
        kani::assume(buf[i] < 128);
        i += 1;
    }
    // SAFETY: every byte is < 128, so this is valid UTF-8.
    let s: &str = unsafe { std::str::from_utf8_unchecked(&buf) };
    Arc::from(s)
}

pub fn any_finite() -> f64 {
    let f: f64 = kani::any();
    kani::assume(f.is_finite());
    f
}

/// Scalar kind classes.
#[derive(Clone, Copy, PartialEq, Eq, Debug)]
pub enum Class {
    Null,
    Int,
    Float,
    Bool,
    Str,
    Enum,
    Mixed,
}

const fn class_eq(a: Class, b: Class) -> bool {
    a as u8 == b as u8
}

/// Innermost scalar class of a shape and its list depth. `Class::Mixed` if the shape mixes
/// classes or depths (which no schema type admits). `(Null, d)` = nothing but nulls and empty
/// lists seen, nested at most `d` deep: compatible with any type of at least that list depth.
pub const fn scalar_class(s: &S) -> (Class, usize) {
    match s {
        S::Null => (Class::Null, 0),
        S::I | S::U => (Class::Int, 0),
        S::F => (Class::Float, 0),
        S::B => (Class::Bool, 0),
        S::Str(_) => (Class::Str, 0),
        S::En(_) => (Class::Enum, 0),
        S::L(items) => {
            let mut acc: (Class, usize) = (Class::Null, 0);
            let mut i = 0;
            while i < items.len() {
                acc = merge(acc, scalar_class(&items[i]));
                i += 1;
            }
            (acc.0, acc.1 + 1)
        }
    }
}

const fn merge(a: (Class, usize), b: (Class, usize)) -> (Class, usize) {
    if class_eq(a.0, Class::Mixed) || class_eq(b.0, Class::Mixed) {
        return (Class::Mixed, 0);
    }
    let a_null = class_eq(a.0, Class::Null);
    let b_null = class_eq(b.0, Class::Null);
    if a_null && b_null {
        (Class::Null, if a.1 > b.1 { a.1 } else { b.1 })
    } else if a_null {
        if a.1 <= b.1 { b } else { (Class::Mixed, 0) }
    } else if b_null {
        if b.1 <= a.1 { a } else { (Class::Mixed, 0) }
    } else if class_eq(a.0, b.0) && a.1 == b.1 {
        a
    } else {
        (Class::Mixed, 0)
    }
}

/// Could both shapes be values of one schema type (ignoring nullability)?
pub const fn same_type(a: &S, b: &S) -> bool {
    !class_eq(merge(scalar_class(a), scalar_class(b)).0, Class::Mixed)
}

/// Is the pair inside the domain of the ordering operators: both of one orderable type
/// (Int, Float, String or lists of those)?
pub const fn orderable_pair(a: &S, b: &S) -> bool {
    let m = merge(scalar_class(a), scalar_class(b));
    matches!(m.0, Class::Null | Class::Int | Class::Float | Class::Str)
}

pub const fn is_null_shape(s: &S) -> bool {
    matches!(s, S::Null)
}

/// Does the shape contain a null anywhere below the top level?
pub const fn has_inner_null(s: &S) -> bool {
    match s {
        S::L(items) => {
            let mut i = 0;
            while i < items.len() {
                if matches!(items[i], S::Null) || has_inner_null(&items[i]) {
                    return true;
                }
                i += 1;
            }
            false
        }
        _ => false,
    }
}
