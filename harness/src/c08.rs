//! C08 — field values form a consistent equality and total order.
//!
//! On the real `PartialEq` / `PartialOrd for FieldValue` (ir/value.rs).

use std::cmp::Ordering;

use trustfall_core::ir::FieldValue;

use crate::refmodel as r;
use crate::shapes::S;
use crate::{mkv, shape};

fn le(o: Option<Ordering>) -> bool {
    matches!(o, Some(Ordering::Less | Ordering::Equal))
}

/// All laws on one triple of concrete shapes, every payload.
pub fn triple_body(a: FieldValue, b: FieldValue, c: FieldValue) {
    let (eq_aa, eq_ab, eq_ba, eq_bc, eq_ac) = (a == a, a == b, b == a, b == c, a == c);
    let (ab, ba, bc, ac, aa) = (
        a.partial_cmp(&b),
        b.partial_cmp(&a),
        b.partial_cmp(&c),
        a.partial_cmp(&c),
        a.partial_cmp(&a),
    );
    let ref_ab = r::ref_eq(&a, &b);
    let nums = (r::num(&a), r::num(&b));

    kani::cover!(eq_ab && eq_bc, "witness: a == b == c possible");
    kani::cover!(matches!(ab, Some(Ordering::Less)) && matches!(bc, Some(Ordering::Less)), "witness: a < b < c possible");

    std::mem::forget(a);
    std::mem::forget(b);
    std::mem::forget(c);

    assert!(eq_aa, "== reflexive");
    assert!(eq_ab == eq_ba, "== symmetric");
    assert!(!(eq_ab && eq_bc) || eq_ac, "== transitive");
    assert!(eq_ab == ref_ab, "== is the documented equality (integers by numeric value)");

    assert!(ab.is_some() && ba.is_some() && bc.is_some() && ac.is_some(), "order is total");
    assert!(matches!(aa, Some(Ordering::Equal)), "cmp reflexive");
    assert!(ab == ba.map(Ordering::reverse), "cmp antisymmetric");
    assert!(!(le(ab) && le(bc)) || le(ac), "<= transitive");
    assert!(eq_ab == matches!(ab, Some(Ordering::Equal)), "== agrees with cmp == Equal");
    if let (Some(x), Some(y)) = nums {
        assert!(ab == Some(x.cmp(&y)), "integers are ordered by numeric value");
    }
}

include!("gen_c08.rs");
