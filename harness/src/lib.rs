//! Kani harnesses over trustfall_core's value-level kernels. See /verif/DESIGN.md.
#![allow(unused, clippy::all)]
#![cfg_attr(kani, feature(allocator_api))]

#[macro_use]
mod macros;

#[cfg(kani)]
pub mod refmodel;
#[cfg(kani)]
pub mod shapes;
#[cfg(kani)]
pub mod tyshape;

#[cfg(all(test, not(kani)))]
mod c04_native;
#[cfg(kani)]
pub mod c04;
#[cfg(kani)]
pub mod c06;
#[cfg(kani)]
pub mod c07;
#[cfg(kani)]
pub mod c08;
#[cfg(kani)]
pub mod c09;
#[cfg(kani)]
pub mod c12;
#[cfg(kani)]
pub mod c13;
#[cfg(kani)]
pub mod c16;
#[cfg(kani)]
pub mod c17;
#[cfg(kani)]
pub mod c18;
#[cfg(kani)]
pub mod c22;

/// Stub for `std::fmt::format`: error paths build their messages from symbolic data; the text
/// of a message is never part of an assertion.
#[cfg(kani)]
pub fn stub_format(_args: std::fmt::Arguments<'_>) -> String {
    String::new()
}

/// Stub for `<Type as Display>::fmt`: only error messages render types.
#[cfg(kani)]
pub fn stub_type_display(_t: &trustfall_core::ir::Type, _f: &mut std::fmt::Formatter<'_>) -> std::fmt::Result {
    Ok(())
}

/// Stub for `Arc::drop_slow` (what runs when the last reference goes away): do nothing, i.e. leak.
/// Destructors of field values have no observable effect besides freeing memory, and the
/// recursive drop glue of `FieldValue::List(Arc<[FieldValue]>)` is what makes CBMC explode
/// wherever a value is dropped on a symbolic path.
#[cfg(kani)]
pub fn stub_arc_drop_slow<T: ?Sized, A: std::alloc::Allocator>(_this: &mut std::sync::Arc<T, A>) {}
