//! Native (non-Kani) entry point used by /verif/c04_mir.py: runs the *real*
//! `hints/dynamic.rs::compute_candidate_from_operation` (through its verif hook) and the real filter
//! kernels on concrete cases given in the environment, for counterexample replay and for validating
//! the MIR encoding against the implementation.
//!
//! `C04_CASES="<Op>|<tag>|<p>;..."` with values `n` (null), an integer, or `[v,v,..]`.

use trustfall_core::interpreter::verif_filtering as f;
use trustfall_core::interpreter::verif_hints as h;
use trustfall_core::interpreter::CandidateValue;
use trustfall_core::ir::{FieldValue, Operation};

fn dec(s: &str) -> FieldValue {
    let s = s.trim();
    if s == "n" {
        FieldValue::Null
    } else if let Some(inner) = s.strip_prefix('[') {
        let inner = inner.strip_suffix(']').expect("closing bracket");
        let items: Vec<FieldValue> = inner.split(',').filter(|x| !x.is_empty()).map(dec).collect();
        FieldValue::List(items.into())
    } else if let Ok(v) = s.parse::<i64>() {
        FieldValue::Int64(v)
    } else {
        FieldValue::Uint64(s.parse::<u64>().expect("integer"))
    }
}

/// membership by the real public API of the candidate types
fn member(c: &CandidateValue<FieldValue>, p: &FieldValue) -> bool {
    match c {
        CandidateValue::Impossible => false,
        CandidateValue::All => true,
        CandidateValue::Single(v) => v == p,
        CandidateValue::Multiple(vs) => vs.iter().any(|v| v == p),
        CandidateValue::Range(r) => r.contains(p),
        _ => panic!("unknown candidate variant"),
    }
}

/// the real `DynamicallyResolvedValue::resolve_fold_specific_field` for a fold of `count` elements
fn fold_specific_candidate(operation: Operation<(), ()>, count: Option<usize>) -> CandidateValue<FieldValue> {
    use std::collections::BTreeMap;
    use std::num::NonZeroUsize;
    use std::sync::Arc;
    use trustfall_core::interpreter::InterpretedQuery;
    use trustfall_core::ir::{
        EdgeParameters, Eid, FoldSpecificField, FoldSpecificFieldKind, IRQuery, IRQueryComponent, IndexedQuery, Vid,
    };
    let vid = |n: usize| Vid::new(NonZeroUsize::new(n).unwrap());
    let comp = Arc::new(IRQueryComponent {
        root: vid(1),
        vertices: BTreeMap::new(),
        edges: BTreeMap::new(),
        folds: BTreeMap::new(),
        outputs: BTreeMap::new(),
    });
    let irq = IRQuery {
        root_name: Arc::from("R"),
        root_parameters: EdgeParameters::default(),
        root_component: comp.clone(),
        variables: BTreeMap::new(),
    };
    let iq = IndexedQuery { ir_query: irq, vids: BTreeMap::new(), eids: BTreeMap::new(), outputs: BTreeMap::new() };
    let q = InterpretedQuery { indexed_query: Arc::new(iq), arguments: Arc::new(BTreeMap::new()) };
    let field = FoldSpecificField {
        fold_eid: Eid::new(NonZeroUsize::new(1).unwrap()),
        fold_root_vid: vid(2),
        kind: FoldSpecificFieldKind::Count,
    };
    h::fold_specific_candidate(q, &comp, &field, operation, CandidateValue::All, count)
}

#[test]
fn c04_native() {
    let Ok(spec) = std::env::var("C04_CASES") else { return };
    for (i, case) in spec.split(';').filter(|x| !x.is_empty()).enumerate() {
        let parts: Vec<&str> = case.split('|').collect();
        // tag `x`: the tag comes from an @optional scope that does not exist (every value passes)
        let nonexistent = parts[1].trim() == "x";
        let (op, tag, p) = (parts[0], if nonexistent { FieldValue::Null } else { dec(parts[1]) }, dec(parts[2]));
        // `F:<Op>`: the fold-count resolver (`resolve_fold_specific_field`); the tag is the fold's element count
        let (fold_specific, op) = match op.strip_prefix("F:") {
            Some(rest) => (true, rest),
            None => (false, op),
        };
        let tag = match (&tag, fold_specific && !nonexistent) {
            (FieldValue::Int64(n), true) => FieldValue::Uint64(u64::try_from(*n).expect("a count")),
            _ => tag,
        };
        let (operation, passes): (Operation<(), ()>, bool) = match op {
            "Equals" => (Operation::Equals((), ()), f::equals(&p, &tag)),
            "NotEquals" => (Operation::NotEquals((), ()), !f::equals(&p, &tag)),
            "LessThan" => (Operation::LessThan((), ()), f::less_than(&p, &tag)),
            "LessThanOrEqual" => (Operation::LessThanOrEqual((), ()), f::less_than_or_equal(&p, &tag)),
            "GreaterThan" => (Operation::GreaterThan((), ()), f::greater_than(&p, &tag)),
            "GreaterThanOrEqual" => (Operation::GreaterThanOrEqual((), ()), f::greater_than_or_equal(&p, &tag)),
            "OneOf" => (Operation::OneOf((), ()), f::one_of(&p, &tag)),
            other => panic!("operator {other}"),
        };
        let passes = passes || nonexistent;
        let tagv = if nonexistent { None } else { Some(tag) };
        let cand = std::panic::catch_unwind(move || {
            if fold_specific {
                let count = tagv.map(|t| usize::try_from(t.as_u64().expect("a count")).expect("fits"));
                fold_specific_candidate(operation, count)
            } else {
                h::dynamic_candidate(&operation, CandidateValue::All, tagv)
            }
        });
        match cand {
            Ok(cand) => println!("C04CASE {i} passes={passes} member={}", member(&cand, &p)),
            Err(_) => println!("C04CASE {i} passes={passes} member=panic"),
        }
    }
}

// ------------------------------------------------------------------------------------------------
// Static part (hints/filters.rs), used by /verif/c04_static.py.
//
// `C04S_CASES`, one case per line:
//   `S|<nullable 0/1>|<p>|<Op>,<v|t|->,<value>;...`   real candidate_from_statically_evaluated_filters
//   `M|<Op>,<v|t|->,<value>;...`                      real fold_requires_at_least_one_element (count filters)
mod static_part {
    use super::{dec, f, h, member};
    use std::collections::BTreeMap;
    use std::num::NonZeroUsize;
    use std::sync::Arc;
    use trustfall_core::ir::{
        Argument, ContextField, EdgeParameters, Eid, FieldRef, FieldValue, FoldSpecificFieldKind,
        IRFold, IRQueryComponent, LocalField, Operation, Type, VariableRef, Vid,
    };

    fn mk_op<L: std::fmt::Debug + Clone + PartialEq + Eq>(op: &str, l: L, a: Argument) -> Operation<L, Argument> {
        match op {
            "IsNull" => Operation::IsNull(l),
            "IsNotNull" => Operation::IsNotNull(l),
            "Equals" => Operation::Equals(l, a),
            "NotEquals" => Operation::NotEquals(l, a),
            "LessThan" => Operation::LessThan(l, a),
            "LessThanOrEqual" => Operation::LessThanOrEqual(l, a),
            "GreaterThan" => Operation::GreaterThan(l, a),
            "GreaterThanOrEqual" => Operation::GreaterThanOrEqual(l, a),
            "Contains" => Operation::Contains(l, a),
            "NotContains" => Operation::NotContains(l, a),
            "OneOf" => Operation::OneOf(l, a),
            "NotOneOf" => Operation::NotOneOf(l, a),
            "HasPrefix" => Operation::HasPrefix(l, a),
            "NotHasPrefix" => Operation::NotHasPrefix(l, a),
            "HasSuffix" => Operation::HasSuffix(l, a),
            "NotHasSuffix" => Operation::NotHasSuffix(l, a),
            "HasSubstring" => Operation::HasSubstring(l, a),
            "NotHasSubstring" => Operation::NotHasSubstring(l, a),
            "RegexMatches" => Operation::RegexMatches(l, a),
            "NotRegexMatches" => Operation::NotRegexMatches(l, a),
            other => panic!("operator {other}"),
        }
    }

    /// does the real filter kernel pass? (`None`: a tag argument or an operator without integer semantics)
    fn passes(op: &str, kind: &str, p: &FieldValue, v: &FieldValue) -> Option<bool> {
        match (op, kind) {
            ("IsNull", _) => Some(f::is_null(p)),
            ("IsNotNull", _) => Some(!f::is_null(p)),
            (_, "t") => None,
            ("Equals", _) => Some(f::equals(p, v)),
            ("NotEquals", _) => Some(f::not_equals(p, v)),
            ("LessThan", _) => Some(f::less_than(p, v)),
            ("LessThanOrEqual", _) => Some(f::less_than_or_equal(p, v)),
            ("GreaterThan", _) => Some(f::greater_than(p, v)),
            ("GreaterThanOrEqual", _) => Some(f::greater_than_or_equal(p, v)),
            ("OneOf", _) => Some(f::one_of(p, v)),
            ("NotOneOf", _) => Some(f::not_one_of(p, v)),
            _ => None,
        }
    }

    fn parse_filters(s: &str) -> Vec<(String, String, FieldValue)> {
        s.split(';')
            .filter(|x| !x.is_empty())
            .map(|x| {
                let mut it = x.splitn(3, ',');
                let op = it.next().unwrap().to_string();
                let kind = it.next().unwrap().to_string();
                let v = dec(it.next().unwrap());
                (op, kind, v)
            })
            .collect()
    }

    fn argument(i: usize, kind: &str, vars: &mut BTreeMap<Arc<str>, FieldValue>, v: &FieldValue) -> Argument {
        let ty = Type::new_named_type("Int", true);
        if kind == "t" {
            Argument::Tag(FieldRef::ContextField(ContextField {
                vertex_id: Vid::new(NonZeroUsize::new(1).unwrap()),
                field_name: Arc::from("tagged"),
                field_type: ty,
            }))
        } else {
            let name: Arc<str> = Arc::from(format!("v{i}"));
            vars.insert(name.clone(), v.clone());
            Argument::Variable(VariableRef { variable_name: name, variable_type: ty })
        }
    }

    #[test]
    fn c04_static_native() {
        let Ok(spec) = std::env::var("C04S_CASES") else { return };
        for (i, case) in spec.lines().filter(|x| !x.is_empty()).enumerate() {
            let parts: Vec<&str> = case.split('|').collect();
            if parts[0] == "S" {
                let nullable = parts[1] == "1";
                let p = dec(parts[2]);
                let fl = parse_filters(parts[3]);
                let mut vars = BTreeMap::new();
                let mut all = nullable || !f::is_null(&p);
                let mut ops = vec![];
                for (k, (op, kind, v)) in fl.iter().enumerate() {
                    let lf = LocalField { field_name: Arc::from("p"), field_type: Type::new_named_type("Int", nullable) };
                    let a = argument(k, kind, &mut vars, v);
                    ops.push(mk_op(op, lf, a));
                    if let Some(b) = passes(op, kind, &p, v) {
                        all &= b;
                    }
                }
                let c = h::static_candidate(&ops, &vars, nullable);
                match c {
                    None => println!("C04SCASE {i} passes={all} cand=none member=true"),
                    Some(c) => println!("C04SCASE {i} passes={all} cand=some member={}", member(&c, &p)),
                }
            } else {
                let fl = parse_filters(parts[1]);
                let mut vars = BTreeMap::new();
                let zero = FieldValue::Uint64(0);
                let mut empty_passes = true;
                let mut ops = vec![];
                for (k, (op, kind, v)) in fl.iter().enumerate() {
                    let a = argument(k, kind, &mut vars, v);
                    ops.push(mk_op(op, FoldSpecificFieldKind::Count, a));
                    if let Some(b) = passes(op, kind, &zero, v) {
                        empty_passes &= b;
                    }
                }
                let vid = |n: usize| Vid::new(NonZeroUsize::new(n).unwrap());
                let fold = IRFold {
                    eid: Eid::new(NonZeroUsize::new(1).unwrap()),
                    from_vid: vid(1),
                    to_vid: vid(2),
                    edge_name: Arc::from("e"),
                    parameters: EdgeParameters::default(),
                    component: Arc::new(IRQueryComponent {
                        root: vid(2),
                        vertices: BTreeMap::new(),
                        edges: BTreeMap::new(),
                        folds: BTreeMap::new(),
                        outputs: BTreeMap::new(),
                    }),
                    imported_tags: vec![],
                    fold_specific_outputs: BTreeMap::new(),
                    post_filters: ops,
                };
                let mandatory = h::fold_requires_at_least_one_element(&vars, &fold);
                println!("C04SCASE {i} mandatory={mandatory} empty_passes={empty_passes}");
            }
        }
    }
}
