//! Native (non-Kani) entry point used by /verif/c04_mir.py: runs the *real*
//! `hints/dynamic.rs::compute_candidate_from_operation` (through its verif hook) and the real filter
//! kernels on concrete cases given in the environment, for counterexample replay and for validating
//! the MIR encoding against the implementation.
//!
//! `C04_CASES="<Op>|<tag>|<p>;..."` with values `n` (null), an integer, or `[v,v,..]`.

use trustfall_core::interpreter::verif_filtering as f;
use trustfall_core::interpreter::verif_hints as h;
use trustfall_core::interpreter::CandidateValue;
use trustfall_core::ir::{FieldValue, Operation};

fn dec(s: &str) -> FieldValue {
    let s = s.trim();
    if s == "n" {
        FieldValue::Null
    } else if let Some(inner) = s.strip_prefix('[') {
        let inner = inner.strip_suffix(']').expect("closing bracket");
        let items: Vec<FieldValue> = inner.split(',').filter(|x| !x.is_empty()).map(dec).collect();
        FieldValue::List(items.into())
    } else if let Ok(v) = s.parse::<i64>() {
        FieldValue::Int64(v)
    } else {
        FieldValue::Uint64(s.parse::<u64>().expect("integer"))
    }
}

/// membership by the real public API of the candidate types
fn member(c: &CandidateValue<FieldValue>, p: &FieldValue) -> bool {
    match c {
        CandidateValue::Impossible => false,
        CandidateValue::All => true,
        CandidateValue::Single(v) => v == p,
        CandidateValue::Multiple(vs) => vs.iter().any(|v| v == p),
        CandidateValue::Range(r) => r.contains(p),
        _ => panic!("unknown candidate variant"),
    }
}

#[test]
fn c04_native() {
    let Ok(spec) = std::env::var("C04_CASES") else { return };
    for (i, case) in spec.split(';').filter(|x| !x.is_empty()).enumerate() {
        let parts: Vec<&str> = case.split('|').collect();
        let (op, tag, p) = (parts[0], dec(parts[1]), dec(parts[2]));
        let (operation, passes): (Operation<(), ()>, bool) = match op {
            "Equals" => (Operation::Equals((), ()), f::equals(&p, &tag)),
            "NotEquals" => (Operation::NotEquals((), ()), !f::equals(&p, &tag)),
            "LessThan" => (Operation::LessThan((), ()), f::less_than(&p, &tag)),
            "LessThanOrEqual" => (Operation::LessThanOrEqual((), ()), f::less_than_or_equal(&p, &tag)),
            "GreaterThan" => (Operation::GreaterThan((), ()), f::greater_than(&p, &tag)),
            "GreaterThanOrEqual" => (Operation::GreaterThanOrEqual((), ()), f::greater_than_or_equal(&p, &tag)),
            "OneOf" => (Operation::OneOf((), ()), f::one_of(&p, &tag)),
            other => panic!("operator {other}"),
        };
        let cand = h::dynamic_candidate(&operation, CandidateValue::All, Some(tag));
        println!("C04CASE {i} passes={passes} member={}", member(&cand, &p));
    }
}
