//! Harness-defining macros.

/// One Kani proof harness running the given statements in sequence (each is one obligation
/// group: a body call on one concrete shape). The final cover is the reachability witness: it is
/// SATISFIED only if every statement returns for some input, i.e. no assumption is
/// unsatisfiable and nothing panics unconditionally.
#[macro_export]
macro_rules! g {
    ($name:ident, $unw:expr, $($stmt:expr;)+) => {
        #[kani::proof]
        #[kani::unwind($unw)]
        #[kani::stub(std::fmt::format, $crate::stub_format)]
        #[kani::stub(std::sync::Arc::drop_slow, $crate::stub_arc_drop_slow)]
        #[kani::stub(<trustfall_core::ir::Type as std::fmt::Display>::fmt, $crate::stub_type_display)]
        pub fn $name() {
            $( $stmt; )+
            kani::cover!(true, "witness: end of harness reached");
        }
    };
}
