//! C17 — type operations obey the subtype lattice laws.
//!
//! One real operation per harness (bundling them was measured to be 20x slower). Types are
//! built with the public constructors from a concrete (base, depth) and symbolic nullability at
//! every level, and results are observed through the public accessors.

use trustfall_core::ir::{FieldValue, Type};

use crate::mkv;
use crate::tyshape::{self, Base, Nulls, mk_type, observe, ref_subtype};

fn forget2(a: Type, b: Type) {
    std::mem::forget(a);
    std::mem::forget(b);
}

/// Constructors and accessors agree: what was put in at each level is what comes out.
pub fn roundtrip_body(base: &str, d: usize) {
    let n = tyshape::any_nulls();
    let t = mk_type(base, d, &n);
    let o = observe(&t, d);
    let wrong_depth = if d > 0 { observe(&t, d - 1).is_some() } else { false };
    std::mem::forget(t);
    let ok = match o {
        Some(o) => {
            let mut i = 0;
            let mut r = true;
            while i <= d {
                if o[i] != n[i] {
                    r = false;
                }
                i += 1;
            }
            r
        }
        None => false,
    };
    assert!(ok, "nullable()/is_list()/as_list() return what new_named_type/new_list_type were given");
    assert!(!wrong_depth, "a type does not have fewer list levels than it was built with");
}

/// `intersect` is exactly the level-wise greatest common subtype, or None.
pub fn intersect_body(base_a: &str, base_b: &str, same_base: bool, da: usize, db: usize) {
    let (na, nb) = (tyshape::any_nulls(), tyshape::any_nulls());
    let a = mk_type(base_a, da, &na);
    let b = mk_type(base_b, db, &nb);
    let x = a.intersect(&b);
    let expect_some = same_base && da == db;
    let got_some = x.is_some();
    let ok = match &x {
        None => !expect_some,
        Some(t) => match observe(t, da) {
            None => false,
            Some(o) => {
                let mut i = 0;
                let mut r = expect_some;
                while i <= da {
                    if o[i] != (na[i] && nb[i]) {
                        r = false;
                    }
                    i += 1;
                }
                r
            }
        },
    };
    kani::cover!(got_some, "witness: intersection exists");
    kani::cover!(!got_some, "witness: intersection does not exist");
    std::mem::forget(x);
    forget2(a, b);
    assert!(got_some == expect_some, "intersection exists iff same base and same list depth");
    assert!(ok, "intersection is nullable at a level iff both inputs are (greatest common subtype)");
}

/// `is_scalar_only_subtype` is exactly the documented relation.
pub fn subtype_body(base_a: &str, base_b: &str, same_base: bool, da: usize, db: usize) {
    let (na, nb) = (tyshape::any_nulls(), tyshape::any_nulls());
    let a = mk_type(base_a, da, &na);
    let b = mk_type(base_b, db, &nb);
    let got = a.verif_is_scalar_only_subtype(&b);
    let exp = ref_subtype(same_base, da, &na, db, &nb);
    kani::cover!(exp, "witness: is a subtype");
    kani::cover!(!exp, "witness: is not a subtype");
    forget2(a, b);
    assert!(got == exp, "subtype relation: same base and depth, parent nullable or child non-null at every level");
}

/// `equal_ignoring_nullability` is exactly "same base, same list depth" (an equivalence).
pub fn eqign_body(base_a: &str, base_b: &str, same_base: bool, da: usize, db: usize) {
    let (na, nb) = (tyshape::any_nulls(), tyshape::any_nulls());
    let a = mk_type(base_a, da, &na);
    let b = mk_type(base_b, db, &nb);
    let got = a.verif_equal_ignoring_nullability(&b);
    forget2(a, b);
    assert!(got == (same_base && da == db), "equal ignoring nullability iff same base and same depth");
}

/// Law form (no oracle): x = a ∩ b is below both, and every common subtype c is below x.
pub fn greatest_body(base: &str, d: usize) {
    let (na, nb, nc) = (tyshape::any_nulls(), tyshape::any_nulls(), tyshape::any_nulls());
    let a = mk_type(base, d, &na);
    let b = mk_type(base, d, &nb);
    let c = mk_type(base, d, &nc);
    let x = a.intersect(&b);
    let ok = match &x {
        None => false,
        Some(x) => {
            let below = a.verif_is_scalar_only_subtype(x) && b.verif_is_scalar_only_subtype(x);
            let common = a.verif_is_scalar_only_subtype(&c) && b.verif_is_scalar_only_subtype(&c);
            kani::cover!(common, "witness: a common subtype exists");
            below && (!common || x.verif_is_scalar_only_subtype(&c))
        }
    };
    std::mem::forget(x);
    forget2(a, b);
    std::mem::forget(c);
    assert!(ok, "intersection is a subtype of both inputs and above every common subtype");
}

/// Law form: the subtype relation is reflexive, antisymmetric and transitive.
pub fn order_laws_body(base: &str, d: usize) {
    let (na, nb, nc) = (tyshape::any_nulls(), tyshape::any_nulls(), tyshape::any_nulls());
    let a = mk_type(base, d, &na);
    let b = mk_type(base, d, &nb);
    let c = mk_type(base, d, &nc);
    let aa = a.verif_is_scalar_only_subtype(&a);
    let ab = a.verif_is_scalar_only_subtype(&b);
    let ba = b.verif_is_scalar_only_subtype(&a);
    let bc = b.verif_is_scalar_only_subtype(&c);
    let ac = a.verif_is_scalar_only_subtype(&c);
    let mut same = true;
    let mut i = 0;
    while i <= d {
        if na[i] != nb[i] {
            same = false;
        }
        i += 1;
    }
    kani::cover!(ab && bc && !same, "witness: strict chain a > b >= c");
    forget2(a, b);
    std::mem::forget(c);
    assert!(aa, "subtype reflexive");
    assert!(!(ab && ba) || same, "subtype antisymmetric");
    assert!(!(ab && bc) || ac, "subtype transitive");
}

/// A value valid for a type is valid for every supertype.
pub fn upcast_body(base: Base, d: usize, v: FieldValue) {
    let (ns, nt) = (tyshape::any_nulls(), tyshape::any_nulls());
    let name = tyshape::base_name(base);
    let sub = mk_type(name, d, &ns);
    let sup = mk_type(name, d, &nt);
    let is_sub = sup.verif_is_scalar_only_subtype(&sub);
    let v_sub = sub.is_valid_value(&v);
    let v_sup = sup.is_valid_value(&v);
    kani::cover!(is_sub && v_sub, "witness: value of a proper subtype");
    std::mem::forget(v);
    forget2(sub, sup);
    assert!(!(is_sub && v_sub) || v_sup, "valid for a type => valid for every supertype");
}

/// `with_nullability` changes the outermost level only.
pub fn with_nullability_body(base: &str, d: usize) {
    let n = tyshape::any_nulls();
    let want: bool = kani::any();
    let t = mk_type(base, d, &n);
    let u = t.with_nullability(want);
    let o = observe(&u, d);
    let orig = observe(&t, d);
    forget2(t, u);
    let ok = match (o, orig) {
        (Some(o), Some(orig)) => {
            let mut i = 0;
            let mut r = o[d] == want && orig[d] == n[d];
            while i < d {
                if o[i] != n[i] {
                    r = false;
                }
                i += 1;
            }
            r
        }
        _ => false,
    };
    assert!(ok, "with_nullability sets the outer level, keeps inner levels and the original");
}

include!("gen_c17.rs");
