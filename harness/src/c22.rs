//! C22 (kernel) — the statically computed fold-count limits are invisible in results.
//!
//! `get_max_fold_count_limit` / `get_min_fold_count_limit` (execution.rs) decide how many
//! elements of a fold the engine materialises. For every count filter `count <op> $v` and every
//! argument value:
//!  * max: a fold with more than `max` elements is discarded early — sound only if every count
//!    above `max` fails the filter;
//!  * min: collection may stop after `min` elements (when nothing inside the fold is observed) —
//!    sound only if the filters' verdict on `min(count, min)` equals the verdict on `count`.
//! "The filter passes" is the reference semantics of the operator on (count as unsigned, argument).

use std::collections::BTreeMap;
use std::num::NonZeroUsize;
use std::sync::Arc;

use trustfall_core::interpreter::InterpretedQuery;
use crate::mkv;
use trustfall_core::interpreter::execution::verif_hooks as x;
use trustfall_core::ir::{
    Argument, EdgeParameters, Eid, FieldValue, FoldSpecificFieldKind, IRFold, IRQuery, IRQueryComponent, IndexedQuery,
    Operation, Type, VariableRef, Vid,
};

#[derive(Clone, Copy, PartialEq, Eq)]
pub enum Op {
    Eq,
    Ne,
    Lt,
    Le,
    Gt,
    Ge,
}

fn vid(i: usize) -> Vid {
    Vid::new(NonZeroUsize::new(i).unwrap())
}
fn eid(i: usize) -> Eid {
    Eid::new(NonZeroUsize::new(i).unwrap())
}

/// count (always a non-negative machine integer) `<op>` argument, numerically
pub fn passes(op: Op, c: u64, a: i128) -> bool {
    let c = c as i128;
    match op {
        Op::Eq => c == a,
        Op::Ne => c != a,
        Op::Lt => c < a,
        Op::Le => c <= a,
        Op::Gt => c > a,
        Op::Ge => c >= a,
    }
}

fn mk_filter(op: Op, name: &str) -> Operation<FoldSpecificFieldKind, Argument> {
    let var = Argument::Variable(VariableRef {
        variable_name: Arc::from(name),
        variable_type: Type::new_named_type("Int", false),
    });
    match op {
        Op::Eq => Operation::Equals(FoldSpecificFieldKind::Count, var),
        Op::Ne => Operation::NotEquals(FoldSpecificFieldKind::Count, var),
        Op::Lt => Operation::LessThan(FoldSpecificFieldKind::Count, var),
        Op::Le => Operation::LessThanOrEqual(FoldSpecificFieldKind::Count, var),
        Op::Gt => Operation::GreaterThan(FoldSpecificFieldKind::Count, var),
        Op::Ge => Operation::GreaterThanOrEqual(FoldSpecificFieldKind::Count, var),
    }
}

fn limits(filters: Vec<Operation<FoldSpecificFieldKind, Argument>>, args: BTreeMap<Arc<str>, FieldValue>) -> (Option<usize>, Option<usize>) {
    let comp = Arc::new(IRQueryComponent {
        root: vid(2),
        vertices: BTreeMap::new(),
        edges: BTreeMap::new(),
        folds: BTreeMap::new(),
        outputs: BTreeMap::new(),
    });
    let fold = IRFold {
        eid: eid(1),
        from_vid: vid(1),
        to_vid: vid(2),
        edge_name: Arc::from("e"),
        parameters: EdgeParameters::default(),
        component: comp.clone(),
        imported_tags: vec![],
        fold_specific_outputs: BTreeMap::new(),
        post_filters: filters,
    };
    let irq = IRQuery {
        root_name: Arc::from("R"),
        root_parameters: EdgeParameters::default(),
        root_component: comp,
        variables: BTreeMap::new(),
    };
    let iq = IndexedQuery { ir_query: irq, vids: BTreeMap::new(), eids: BTreeMap::new(), outputs: BTreeMap::new() };
    let q = InterpretedQuery { indexed_query: Arc::new(iq), arguments: Arc::new(args) };
    let r = x::fold_count_limits(q, &fold);
    std::mem::forget(fold);
    r
}

fn any_int_arg(signed: bool) -> (FieldValue, i128) {
    if signed {
        let a: i64 = kani::any();
        (FieldValue::Int64(a), a as i128)
    } else {
        let a: u64 = kani::any();
        (FieldValue::Uint64(a), a as i128)
    }
}

/// One count filter.
pub fn single_filter_body(op: Op, signed: bool) {
    let (arg, a) = any_int_arg(signed);
    let mut args: BTreeMap<Arc<str>, FieldValue> = BTreeMap::new();
    args.insert(Arc::from("v"), arg);
    let (max, min) = limits(vec![mk_filter(op, "v")], args);
    let c: u64 = kani::any();
    let pass = passes(op, c, a);
    kani::cover!(max.is_some(), "witness: a max limit is derived");
    kani::cover!(min.is_some(), "witness: a min limit is derived");
    kani::cover!(pass, "witness: count passes the filter");
    if let Some(m) = max {
        assert!(!(c > m as u64) || !pass, "a fold larger than the max limit cannot pass the count filter");
    }
    if let Some(m) = min {
        let truncated = if c < m as u64 { c } else { m as u64 };
        assert!(passes(op, truncated, a) == pass, "truncating the fold at the min limit does not change the filter's verdict");
    }
}

/// Two count filters on the same fold, both against the same variable (the limits of the two
/// filters are combined: smallest max, largest min). Two *different* variables need a two-entry
/// argument map, which was measured to exhaust memory (35 GB after 4 min).
pub fn two_filter_body(op1: Op, op2: Op, signed: bool) {
    let (arg, a) = any_int_arg(signed);
    let mut args: BTreeMap<Arc<str>, FieldValue> = BTreeMap::new();
    args.insert(Arc::from("v"), arg);
    let (max, min) = limits(vec![mk_filter(op1, "v"), mk_filter(op2, "v")], args);
    let c: u64 = kani::any();
    let pass = passes(op1, c, a) && passes(op2, c, a);
    kani::cover!(max.is_some() || min.is_some(), "witness: some limit is derived from two filters");
    kani::cover!(pass, "witness: count passes both filters");
    if let Some(m) = max {
        assert!(!(c > m as u64) || !pass, "a fold larger than the max limit cannot pass the count filters");
    }
    if let Some(m) = min {
        let t = if c < m as u64 { c } else { m as u64 };
        assert!((passes(op1, t, a) && passes(op2, t, a)) == pass, "truncating the fold at the min limit does not change the filters' verdict");
    }
}

/// `count one_of $v` with a list of integers: the max limit is the largest element.
pub fn one_of_body(list: FieldValue) {
    let nums: Vec<i128> = match &list {
        FieldValue::List(xs) => xs.iter().map(|x| crate::refmodel::num(x).unwrap()).collect(),
        _ => panic!("shape"),
    };
    let mut args: BTreeMap<Arc<str>, FieldValue> = BTreeMap::new();
    args.insert(Arc::from("v"), list);
    let var = Argument::Variable(VariableRef {
        variable_name: Arc::from("v"),
        variable_type: Type::new_list_type(Type::new_named_type("Int", false), false),
    });
    let (max, min) = limits(vec![Operation::OneOf(FoldSpecificFieldKind::Count, var)], args);
    let c: u64 = kani::any();
    let mut pass = false;
    let mut i = 0;
    while i < nums.len() {
        if nums[i] == c as i128 {
            pass = true;
        }
        i += 1;
    }
    std::mem::forget(nums);
    kani::cover!(pass, "witness: count is one of the listed values");
    if let Some(m) = max {
        assert!(!(c > m as u64) || !pass, "a fold larger than the max limit cannot pass one_of");
    }
    assert!(min.is_none(), "one_of gives no min limit");
}

/// How the limits are applied while collecting a fold of `n` elements (only the empty fold is
/// within reach: with two or more `DataContext`s the harness does not finish in 10 min).
pub fn collect_body(n: usize) {
    use trustfall_core::interpreter::DataContext;
    let max: Option<usize> = kani::any();
    let min: Option<usize> = kani::any();
    let mut v: Vec<DataContext<()>> = Vec::with_capacity(4);
    let mut i = 0;
    while i < n {
        v.push(DataContext::new(Some(())));
        i += 1;
    }
    let r = x::collect_fold_elements(Box::new(v.into_iter()), &max, &min);
    let got = r.as_ref().map(|c| c.len());
    std::mem::forget(r);
    let exp = match (max, min) {
        (Some(m), _) => {
            if n > m {
                None
            } else {
                Some(n)
            }
        }
        (None, Some(k)) => Some(if n < k { n } else { k }),
        (None, None) => Some(n),
    };
    assert!(got == exp, "fold is discarded iff larger than max; otherwise truncated at min only when no max is known");
}

pub mod quick {
    use super::*;
    g!(single_eq, 4, single_filter_body(Op::Eq, true); single_filter_body(Op::Eq, false););
    g!(single_ne, 4, single_filter_body(Op::Ne, true); single_filter_body(Op::Ne, false););
    g!(single_lt, 4, single_filter_body(Op::Lt, true); single_filter_body(Op::Lt, false););
    g!(single_le, 4, single_filter_body(Op::Le, true); single_filter_body(Op::Le, false););
    g!(single_gt, 4, single_filter_body(Op::Gt, true); single_filter_body(Op::Gt, false););
    g!(single_ge, 4, single_filter_body(Op::Ge, true); single_filter_body(Op::Ge, false););
    g!(one_of_1, 5, one_of_body(mkv!([I])); one_of_body(mkv!([U])););
    g!(one_of_2, 5, one_of_body(mkv!([I, U])););
    g!(two_ge_lt, 4, two_filter_body(Op::Ge, Op::Lt, true););
    g!(two_gt_le, 4, two_filter_body(Op::Gt, Op::Le, false););
    g!(two_lt_le, 4, two_filter_body(Op::Lt, Op::Le, true););
    g!(two_ge_gt, 4, two_filter_body(Op::Ge, Op::Gt, true););
    g!(two_ge_ne, 4, two_filter_body(Op::Ge, Op::Ne, true););
    g!(two_ne_gt, 4, two_filter_body(Op::Ne, Op::Gt, false););
    g!(two_eq_ge, 4, two_filter_body(Op::Eq, Op::Ge, true););
    g!(collect_0, 5, collect_body(0););
}

include!("gen_c22.rs");
