//! C06 — candidate-value intersection and exclusion are exact set operations.
//!
//! The generic code of `hints/candidates.rs` (`CandidateValue<T>::{intersect, normalize,
//! exclude_single_value}`, `Range<T>::{intersect, contains, degenerate, null_only}`) is
//! monomorphised here at a heap-free element type `V = {Null, I(i64), U(u64)}` whose `==` / `<`
//! are numeric across `I`/`U` with `Null` smallest — the laws C08 proves for `FieldValue` on the
//! same three kinds. Every branch taken below is the repository's own source; because `V` has
//! no heap arm, its discriminant may be symbolic.
//!
//! Oracle: set membership. `member(c, p)` is written here from the documentation of each
//! variant and never calls `Range::contains`.

use std::cmp::Ordering;
use std::ops::Bound;

use trustfall_core::interpreter::{CandidateValue, Range, VerifNullableValue};

#[derive(Debug, Clone, Copy, Default)]
pub enum V {
    #[default]
    Null,
    I(i64),
    U(u64),
}

impl V {
    pub fn n(&self) -> Option<i128> {
        match self {
            V::Null => None,
            V::I(i) => Some(*i as i128),
            V::U(u) => Some(*u as i128),
        }
    }
}
impl PartialEq for V {
    fn eq(&self, o: &Self) -> bool {
        self.n() == o.n()
    }
}
impl Eq for V {}
impl PartialOrd for V {
    fn partial_cmp(&self, o: &Self) -> Option<Ordering> {
        Some(match (self.n(), o.n()) {
            (None, None) => Ordering::Equal,
            (None, Some(_)) => Ordering::Less,
            (Some(_), None) => Ordering::Greater,
            (Some(a), Some(b)) => a.cmp(&b),
        })
    }
}
impl VerifNullableValue for V {
    fn is_null(&self) -> bool {
        matches!(self, V::Null)
    }
}

pub fn any_v() -> V {
    let k: u8 = kani::any();
    match k {
        0 => V::Null,
        1 => V::I(kani::any()),
        _ => V::U(kani::any()),
    }
}
pub fn any_nonnull() -> V {
    if kani::any() { V::I(kani::any()) } else { V::U(kani::any()) }
}

/// Bound kinds: 0 = unbounded, 1 = included, 2 = excluded (concrete in every harness).
pub fn mk_bound(kind: u8) -> Bound<V> {
    match kind {
        0 => Bound::Unbounded,
        1 => Bound::Included(any_nonnull()),
        _ => Bound::Excluded(any_nonnull()),
    }
}

pub fn in_range(start: &Bound<V>, end: &Bound<V>, nulls: bool, p: &V) -> bool {
    match p.n() {
        None => nulls,
        Some(x) => {
            (match start {
                Bound::Unbounded => true,
                Bound::Included(s) => s.n().unwrap() <= x,
                Bound::Excluded(s) => s.n().unwrap() < x,
            }) && (match end {
                Bound::Unbounded => true,
                Bound::Included(e) => x <= e.n().unwrap(),
                Bound::Excluded(e) => x < e.n().unwrap(),
            })
        }
    }
}

/// Which values does a candidate denote? (From the doc comments of `CandidateValue`.)
pub fn member(c: &CandidateValue<V>, p: &V) -> bool {
    match c {
        CandidateValue::Impossible => false,
        CandidateValue::All => true,
        CandidateValue::Single(v) => v.n() == p.n(),
        CandidateValue::Multiple(vs) => {
            let mut r = false;
            let mut i = 0;
            while i < vs.len() {
                if vs[i].n() == p.n() {
                    r = true;
                }
                i += 1;
            }
            r
        }
        CandidateValue::Range(r) => {
            let s = r.start_bound().cloned();
            let e = r.end_bound().cloned();
            in_range(&s, &e, r.null_included(), p)
        }
        _ => panic!("unknown CandidateValue variant"),
    }
}

/// Candidate kinds: 0 Impossible, 1 Single, 2 All, 1x Multiple of x elements,
/// 1sse Range with start kind s, end kind e (see `mk_bound`).
pub fn mk_cand(kind: u16) -> CandidateValue<V> {
    match kind {
        0 => CandidateValue::Impossible,
        1 => CandidateValue::Single(any_v()),
        2 => CandidateValue::All,
        10 => CandidateValue::Multiple(Vec::new()),
        11 => CandidateValue::Multiple(vec![any_v()]),
        12 => CandidateValue::Multiple(vec![any_v(), any_v()]),
        13 => CandidateValue::Multiple(vec![any_v(), any_v(), any_v()]),
        k if k >= 100 => {
            let s = ((k - 100) / 10) as u8;
            let e = ((k - 100) % 10) as u8;
            CandidateValue::Range(Range::verif_new(mk_bound(s), mk_bound(e), kani::any()))
        }
        _ => panic!("bad candidate kind"),
    }
}

pub fn intersect_body(ka: u16, kb: u16) {
    let mut a = mk_cand(ka);
    let b = mk_cand(kb);
    let p = any_v();
    let exp = member(&a, &p) && member(&b, &p);
    a.verif_intersect(b);
    let got = member(&a, &p);
    kani::cover!(exp, "witness: probe in both candidates");
    kani::cover!(!exp, "witness: probe outside the intersection");
    kani::cover!(matches!(p, V::Null) && exp, "witness: null in both candidates");
    std::mem::forget(a);
    assert!(got == exp, "intersection contains exactly the values contained in both");
}

pub fn normalize_body(ka: u16) {
    let mut a = mk_cand(ka);
    let p = any_v();
    let exp = member(&a, &p);
    a.verif_normalize();
    let got = member(&a, &p);
    kani::cover!(exp, "witness: probe in candidate");
    std::mem::forget(a);
    assert!(got == exp, "normalizing never changes which values a candidate contains");
}

pub fn exclude_body(ka: u16) {
    let mut a = mk_cand(ka);
    let x = any_v();
    let p = any_v();
    let before = member(&a, &p);
    a.verif_exclude_single_value(&x);
    let after = member(&a, &p);
    kani::cover!(before && p.n() != x.n(), "witness: another member survives");
    kani::cover!(before && p.n() == x.n(), "witness: excluded value was a member");
    std::mem::forget(a);
    assert!(!after || before, "exclusion result is contained in the original");
    assert!(!(before && p.n() != x.n()) || after, "exclusion keeps every other value");
}

include!("gen_c06.rs");

/// Cross-check of the transfer step: the same obligations on the real `T = FieldValue`
/// instantiation, for shapes whose bounds cannot change variant under a symbolic condition.
pub mod fv {
    use std::ops::Bound;
    use std::sync::Arc;

    use trustfall_core::interpreter::{CandidateValue, Range};
    use trustfall_core::ir::FieldValue;

    use crate::c04::member;
    use crate::mkv;

    pub fn intersect_fv(mut a: CandidateValue<FieldValue>, b: CandidateValue<FieldValue>, p: FieldValue) {
        let exp = member(&a, &p) && member(&b, &p);
        a.verif_intersect(b);
        let got = member(&a, &p);
        kani::cover!(exp, "witness: probe in both candidates");
        kani::cover!(!exp, "witness: probe outside the intersection");
        std::mem::forget(a);
        std::mem::forget(p);
        assert!(got == exp, "intersection contains exactly the values contained in both (T = FieldValue)");
    }

    pub fn exclude_fv(mut a: CandidateValue<FieldValue>, x: FieldValue, p: FieldValue) {
        let before = member(&a, &p);
        let same = crate::refmodel::ref_eq(&x, &p);
        a.verif_exclude_single_value(&x);
        let after = member(&a, &p);
        std::mem::forget(a);
        std::mem::forget(p);
        std::mem::forget(x);
        assert!(!after || before, "exclusion result is contained in the original (T = FieldValue)");
        assert!(!(before && !same) || after, "exclusion keeps every other value (T = FieldValue)");
    }

    fn single(v: FieldValue) -> CandidateValue<FieldValue> {
        CandidateValue::Single(v)
    }
    fn multiple2(a: FieldValue, b: FieldValue) -> CandidateValue<FieldValue> {
        CandidateValue::Multiple(vec![a, b])
    }

    // Only these shapes finish at T = FieldValue (4-26 s). Measured at the 600 s cap, all with the
    // Arc::drop_slow stub: Single x Single of different integer kinds, Multiple x Single,
    // Single x Range, every Range x Range shape tried (same-kind and mixed-kind bounds),
    // exclude on a Range. The transfer to FieldValue therefore rests on C06@V + C08.
    g!(single_n_single_n, 4, intersect_fv(single(mkv!(N)), single(mkv!(N)), mkv!(N)););
    g!(multiple_in_multiple_ui, 5, intersect_fv(multiple2(mkv!(I), mkv!(N)), multiple2(mkv!(U), mkv!(I)), mkv!(U)););
    g!(exclude_multiple, 5, exclude_fv(multiple2(mkv!(I), mkv!(U)), mkv!(U), mkv!(I)););
}
