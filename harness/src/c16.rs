//! C16 — values and types survive round-trips (the solver-reachable part):
//!  * `FieldValue -> TransparentValue -> FieldValue` (the untagged-JSON form) is the identity;
//!  * rendering a type to text and parsing it back returns the same type.

use trustfall_core::ir::{FieldValue, TransparentValue, Type};

use crate::mkv;
use crate::refmodel as r;
use crate::tyshape::{self, mk_type, observe};

/// Structural identity: same variant, same payload (floats by bit pattern), same contents.
pub fn same(a: &FieldValue, b: &FieldValue) -> bool {
    match (a, b) {
        (FieldValue::Null, FieldValue::Null) => true,
        (FieldValue::Int64(x), FieldValue::Int64(y)) => x == y,
        (FieldValue::Uint64(x), FieldValue::Uint64(y)) => x == y,
        (FieldValue::Float64(x), FieldValue::Float64(y)) => x.to_bits() == y.to_bits(),
        (FieldValue::Boolean(x), FieldValue::Boolean(y)) => x == y,
        (FieldValue::String(x), FieldValue::String(y)) => r::bytes_eq(x.as_bytes(), y.as_bytes()),
        (FieldValue::Enum(x), FieldValue::Enum(y)) => r::bytes_eq(x.as_bytes(), y.as_bytes()),
        (FieldValue::List(x), FieldValue::List(y)) => {
            if x.len() != y.len() {
                return false;
            }
            let mut i = 0;
            let mut ok = true;
            while i < x.len() {
                if !same(&x[i], &y[i]) {
                    ok = false;
                }
                i += 1;
            }
            ok
        }
        _ => false,
    }
}

pub fn transparent_body(v: FieldValue) {
    let copy = v.clone();
    let t: TransparentValue = copy.into();
    let back: FieldValue = t.into();
    let ok = same(&v, &back);
    std::mem::forget(v);
    std::mem::forget(back);
    assert!(ok, "FieldValue -> TransparentValue -> FieldValue is the identity");
}

pub fn type_text_body(base: &str, d: usize) {
    let n = tyshape::any_nulls();
    let t = mk_type(base, d, &n);
    let text = t.to_string();
    let parsed = Type::parse(&text);
    let ok = match &parsed {
        Ok(p) => match observe(p, d) {
            Some(o) => {
                let mut i = 0;
                let mut same = p.base_type().len() == base.len();
                while i <= d {
                    if o[i] != n[i] {
                        same = false;
                    }
                    i += 1;
                }
                same
            }
            None => false,
        },
        Err(_) => false,
    };
    std::mem::forget(parsed);
    std::mem::forget(text);
    std::mem::forget(t);
    assert!(ok, "Type::parse(t.to_string()) is t");
}

macro_rules! tv {
    ($name:ident, $unw:expr, $v:tt) => {
        #[kani::proof]
        #[kani::unwind($unw)]
        pub fn $name() {
            transparent_body(mkv!($v));
            kani::cover!(true, "witness: end of harness reached");
        }
    };
}
macro_rules! tt {
    ($name:ident, $unw:expr, $base:expr, $d:expr) => {
        #[kani::proof]
        #[kani::unwind($unw)]
        pub fn $name() {
            type_text_body($base, $d);
            kani::cover!(true, "witness: end of harness reached");
        }
    };
}

pub mod quick {
    use super::*;
    tv!(tv_n, 3, N);
    tv!(tv_i, 3, I);
    tv!(tv_u, 3, U);
    tv!(tv_f, 3, F);
    tv!(tv_b, 3, B);
    tv!(tv_s0, 3, S0);
    tv!(tv_s2, 4, S2);
    tv!(tv_e1, 3, E1);
    tv!(tv_le, 3, []);
    tv!(tv_lie, 4, [I]);
    tv!(tv_liue, 4, [I, U]);
    tv!(tv_lnfe, 4, [N, F]);
    tv!(tv_ls1be, 4, [S1, B]);
}

pub mod thorough {
    use super::*;
    tv!(tv_s1, 3, S1);
    tv!(tv_s3, 5, S3);
    tv!(tv_e0, 3, E0);
    tv!(tv_e2, 4, E2);
    tv!(tv_lne, 4, [N]);
    tv!(tv_lue, 4, [U]);
    tv!(tv_lfe, 4, [F]);
    tv!(tv_ls2e, 4, [S2]);
    tv!(tv_le1e, 4, [E1]);
    tv!(tv_luie, 4, [U, I]);
    tv!(tv_lfne, 4, [F, N]);
    tv!(tv_ls2s1e, 4, [S2, S1]);
    tv!(tv_le1be, 4, [E1, B]);
    tv!(tv_lbbe, 4, [B, B]);
    // Measured and left out (stated as outside the claim): lists of 3 elements through this
    // conversion (Vec -> Arc<[T]> collect) exceed 10 min / run out of memory; the text round trip
    // Type::parse(t.to_string()) (core::fmt + async_graphql_parser on a string of symbolic
    // length) exceeds 10 min already for a non-list type.
}
