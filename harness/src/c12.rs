//! C12 — argument validation accepts exactly the well-typed values (kernel: the per-variable
//! accept/refuse decision `Type::is_valid_value`).

use trustfall_core::ir::{FieldValue, Type};

use crate::mkv;
use crate::tyshape::{self, Base, Nulls};

pub fn fits_body(base: Base, depth: usize, v: FieldValue) {
    let nulls = tyshape::any_nulls();
    let t = tyshape::mk_type(tyshape::base_name(base), depth, &nulls);
    let got = t.is_valid_value(&v);
    let exp = tyshape::ref_fits(base, depth, &nulls, &v);
    kani::cover!(true, "witness: end of harness reached");
    kani::cover!(exp, "witness: value fits type");
    kani::cover!(!exp, "witness: value does not fit type");
    std::mem::forget(v);
    std::mem::forget(t);
    assert!(got == exp, "is_valid_value decides exactly 'value fits type'");
}

macro_rules! fits {
    ($name:ident, $unw:expr, $base:ident, $depth:expr, $v:tt) => {
        #[kani::proof]
        #[kani::unwind($unw)]
        pub fn $name() {
            fits_body(Base::$base, $depth, mkv!($v));
        }
    };
}

include!("gen_c12.rs");
