//! C12 — argument validation accepts exactly the well-typed values (kernel: the per-variable
//! accept/refuse decision `Type::is_valid_value`).

use trustfall_core::ir::{FieldValue, Type};

use crate::mkv;
use crate::tyshape::{self, Base, Nulls};

pub fn fits_body(base: Base, depth: usize, v: FieldValue) {
    let nulls = tyshape::any_nulls();
    let t = tyshape::mk_type(tyshape::base_name(base), depth, &nulls);
    let got = t.is_valid_value(&v);
    let exp = tyshape::ref_fits(base, depth, &nulls, &v);
    kani::cover!(exp, "witness: value fits type");
    kani::cover!(!exp, "witness: value does not fit type");
    std::mem::forget(v);
    std::mem::forget(t);
    assert!(got == exp, "is_valid_value decides exactly 'value fits type'");
}

/// The same decision through `validate_argument_type`, the function argument validation
/// calls for every supplied variable.
pub fn validate_body(base: Base, depth: usize, v: FieldValue) {
    let nulls = tyshape::any_nulls();
    let t = tyshape::mk_type(tyshape::base_name(base), depth, &nulls);
    let res = trustfall_core::interpreter::verif_validate_argument_type("v", &t, &v);
    let got = res.is_ok();
    std::mem::forget(res); // the error owns a copy of the value: its drop glue is recursive
    let exp = tyshape::ref_fits(base, depth, &nulls, &v);
    kani::cover!(exp, "witness: argument accepted");
    kani::cover!(!exp, "witness: argument refused");
    std::mem::forget(v);
    std::mem::forget(t);
    assert!(got == exp, "an argument is accepted iff its value fits the variable's type");
}

include!("gen_c12.rs");
