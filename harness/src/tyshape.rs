//! Types of concrete base name and list depth with symbolic nullability at every level.

use trustfall_core::ir::{FieldValue, Type};

pub const MAXD: usize = 3;

/// Nullability per level: index 0 = innermost (the named type), index `depth` = outermost.
pub type Nulls = [bool; MAXD + 1];

pub fn any_nulls() -> Nulls {
    // element-wise: `kani::any::<[bool; 4]>()` is a loop that would need its own unwind budget
    [kani::any(), kani::any(), kani::any(), kani::any()]
}

/// Built only with the public constructors.
pub fn mk_type(base: &str, depth: usize, nulls: &Nulls) -> Type {
    let mut t = Type::new_named_type(base, nulls[0]);
    let mut i = 1;
    while i <= depth {
        t = Type::new_list_type(t, nulls[i]);
        i += 1;
    }
    t
}

/// Observe a type through its public accessors: `Some(nulls)` if it has exactly `depth` list
/// levels (levels above `depth` reported as `false`), `None` otherwise.
pub fn observe(t: &Type, depth: usize) -> Option<Nulls> {
    let mut out: Nulls = [false; MAXD + 1];
    let mut cur = t.clone();
    let mut level = depth;
    loop {
        out[level] = cur.nullable();
        if level == 0 {
            let ok = !cur.is_list();
            std::mem::forget(cur);
            return if ok { Some(out) } else { None };
        }
        match cur.as_list() {
            Some(inner) => {
                std::mem::forget(cur);
                cur = inner;
            }
            None => {
                std::mem::forget(cur);
                return None;
            }
        }
        level -= 1;
    }
}

/// Reference subtype relation (documentation of `is_scalar_only_subtype`): same base, same
/// depth, and at every level the parent is nullable or the child is not.
pub fn ref_subtype(same_base: bool, dp: usize, np: &Nulls, dc: usize, nc: &Nulls) -> bool {
    if !same_base || dp != dc {
        return false;
    }
    let mut i = 0;
    let mut r = true;
    while i <= dp {
        if !np[i] && nc[i] {
            r = false;
        }
        i += 1;
    }
    r
}

/// Scalar base classes for the value-fitting oracle.
#[derive(Clone, Copy, PartialEq, Eq)]
pub enum Base {
    Int,
    Float,
    Str,
    Bool,
    Other,
}

pub const fn base_name(b: Base) -> &'static str {
    match b {
        Base::Int => "Int",
        Base::Float => "Float",
        Base::Str => "String",
        Base::Bool => "Boolean",
        Base::Other => "T",
    }
}

/// Reference "value fits type" (doc comment of `Type::is_valid_value`): null fits iff this level
/// is nullable; a scalar fits iff no list levels remain and the base matches (both integer
/// representations fit `Int`); a list fits iff a list level remains and every element fits the
/// inner type. Enum values fit no type (schemas cannot declare enum types).
pub fn ref_fits(base: Base, level: usize, nulls: &Nulls, v: &FieldValue) -> bool {
    match v {
        FieldValue::Null => nulls[level],
        FieldValue::Int64(_) | FieldValue::Uint64(_) => level == 0 && base == Base::Int,
        FieldValue::Float64(_) => level == 0 && base == Base::Float,
        FieldValue::String(_) => level == 0 && base == Base::Str,
        FieldValue::Boolean(_) => level == 0 && base == Base::Bool,
        FieldValue::Enum(_) => false,
        FieldValue::List(xs) => {
            if level == 0 {
                return false;
            }
            let mut i = 0;
            let mut r = true;
            while i < xs.len() {
                if !ref_fits(base, level - 1, nulls, &xs[i]) {
                    r = false;
                }
                i += 1;
            }
            r
        }
        _ => false,
    }
}
