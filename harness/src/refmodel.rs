//! Reference definitions (the oracles). Written from the documentation, never by calling
//! the implementation under test: no `FieldValue == FieldValue`, no `partial_cmp` on
//! `FieldValue`, no `Type == Type`.
//!
//! Everything here pattern-matches on values whose *shape* (variant, length) is concrete in the
//! harness, so the recursion below is folded away by symbolic execution; only the payload
//! comparisons end up in the formula.

use std::cmp::Ordering;

use trustfall_core::ir::FieldValue;

/// Numeric value of an integer-kinded field value.
pub fn num(v: &FieldValue) -> Option<i128> {
    match v {
        FieldValue::Int64(i) => Some(*i as i128),
        FieldValue::Uint64(u) => Some(*u as i128),
        _ => None,
    }
}

pub fn bytes_eq(a: &[u8], b: &[u8]) -> bool {
    if a.len() != b.len() {
        return false;
    }
    let mut i = 0;
    let mut r = true;
    while i < a.len() {
        if a[i] != b[i] {
            r = false;
        }
        i += 1;
    }
    r
}

/// Byte-wise lexicographic order (this is what `str` ordering is defined as).
pub fn bytes_cmp(a: &[u8], b: &[u8]) -> Ordering {
    let mut i = 0;
    while i < a.len() && i < b.len() {
        if a[i] < b[i] {
            return Ordering::Less;
        }
        if a[i] > b[i] {
            return Ordering::Greater;
        }
        i += 1;
    }
    if a.len() < b.len() {
        Ordering::Less
    } else if a.len() > b.len() {
        Ordering::Greater
    } else {
        Ordering::Equal
    }
}

pub fn is_prefix(hay: &[u8], needle: &[u8]) -> bool {
    if needle.len() > hay.len() {
        return false;
    }
    let mut i = 0;
    let mut r = true;
    while i < needle.len() {
        if hay[i] != needle[i] {
            r = false;
        }
        i += 1;
    }
    r
}

pub fn is_suffix(hay: &[u8], needle: &[u8]) -> bool {
    if needle.len() > hay.len() {
        return false;
    }
    let off = hay.len() - needle.len();
    let mut i = 0;
    let mut r = true;
    while i < needle.len() {
        if hay[off + i] != needle[i] {
            r = false;
        }
        i += 1;
    }
    r
}

pub fn is_substring(hay: &[u8], needle: &[u8]) -> bool {
    if needle.len() > hay.len() {
        return false;
    }
    let mut start = 0;
    let mut found = false;
    while start + needle.len() <= hay.len() {
        let mut i = 0;
        let mut here = true;
        while i < needle.len() {
            if hay[start + i] != needle[i] {
                here = false;
            }
            i += 1;
        }
        if here {
            found = true;
        }
        start += 1;
    }
    found
}

/// Documented equality: null-safe, integers by numeric value regardless of representation,
/// floats by IEEE equality on finite values, strings/enums by content, lists element-wise.
/// Values of different kinds are never equal.
pub fn ref_eq(a: &FieldValue, b: &FieldValue) -> bool {
    match (a, b) {
        (FieldValue::Null, FieldValue::Null) => true,
        (FieldValue::Int64(_) | FieldValue::Uint64(_), FieldValue::Int64(_) | FieldValue::Uint64(_)) => {
            num(a) == num(b)
        }
        (FieldValue::Float64(x), FieldValue::Float64(y)) => *x == *y,
        (FieldValue::Boolean(x), FieldValue::Boolean(y)) => *x == *y,
        (FieldValue::String(x), FieldValue::String(y)) => bytes_eq(x.as_bytes(), y.as_bytes()),
        (FieldValue::Enum(x), FieldValue::Enum(y)) => bytes_eq(x.as_bytes(), y.as_bytes()),
        (FieldValue::List(x), FieldValue::List(y)) => {
            if x.len() != y.len() {
                return false;
            }
            let mut i = 0;
            let mut r = true;
            while i < x.len() {
                if !ref_eq(&x[i], &y[i]) {
                    r = false;
                }
                i += 1;
            }
            r
        }
        _ => false,
    }
}

/// Documented ordering on the domain the frontend admits for `<, <=, >, >=`:
/// both operands of the same orderable kind (integers of either representation, finite floats,
/// strings) or lists of such, compared lexicographically. `None` = outside that domain
/// (includes any null, at any depth): nothing is asserted about the result there.
pub fn ref_cmp(a: &FieldValue, b: &FieldValue) -> Option<Ordering> {
    match (a, b) {
        (FieldValue::Int64(_) | FieldValue::Uint64(_), FieldValue::Int64(_) | FieldValue::Uint64(_)) => {
            Some(num(a).unwrap().cmp(&num(b).unwrap()))
        }
        (FieldValue::Float64(x), FieldValue::Float64(y)) => {
            if *x < *y {
                Some(Ordering::Less)
            } else if *x > *y {
                Some(Ordering::Greater)
            } else if *x == *y {
                Some(Ordering::Equal)
            } else {
                None
            }
        }
        (FieldValue::String(x), FieldValue::String(y)) => Some(bytes_cmp(x.as_bytes(), y.as_bytes())),
        (FieldValue::List(x), FieldValue::List(y)) => {
            let mut i = 0;
            while i < x.len() && i < y.len() {
                match ref_cmp(&x[i], &y[i]) {
                    None => return None,
                    Some(Ordering::Equal) => {}
                    Some(o) => return Some(o),
                }
                i += 1;
            }
            Some(x.len().cmp(&y.len()))
        }
        _ => None,
    }
}

pub fn is_null(v: &FieldValue) -> bool {
    matches!(v, FieldValue::Null)
}
