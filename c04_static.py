#!/usr/bin/env python3
"""C04 (kernel), static part: hints/filters.rs executed symbolically from rustc's MIR.

  S1  candidate_from_statically_evaluated_filters -- the WHOLE function body and all of its closures
      are executed from MIR on a concrete list of filters (operators and argument kinds concrete,
      every argument value, the probe value and their nullness symbolic):
          (every filter passes for p)  and  (field nullable or p non-null)  =>  p in result
      for every list of 1..=2 (quick) / 1..=3 (thorough) filters drawn from all 20 operators with
      `$variable` / `%tag` arguments.
  S2  fold_requires_at_least_one_element::{closure#1} (+ its inner closure), the classification of a
      fold as mandatory from the candidate for its count:
          result == true  =>  0 not in candidate
      for every candidate shape (Impossible, All, Single, Multiple of 0..=3, Range with every
      combination of bound kinds), payloads symbolic.  With S1 (0 passes => 0 in candidate) this gives
      "a fold reported as mandatory cannot pass its count filters when empty".

Modelled, not executed (summaries): Option::and_then / expect / is_some / unwrap_or_default,
itertools partition_map, Iterator fold / filter_map / flatten / collect / next / all / once, Vec
is_empty / into_iter / deref, slice iter, Box::new, BTreeMap index (a variable name maps to the value
attached to it), Cow / AsRef / Deref / ToOwned / Clone (transparent), FieldValue::as_vec_with /
as_slice / as_u64 (value-level definitions), CandidateValue::intersect (set intersection),
normalize (identity on membership), exclude_single_value (removes exactly that value) -- the last three
are the laws C06 decides on the real generic code.  Executed from their own MIR: Operation::right,
Argument::evaluate_statically, Range::with_start / with_end / full_non_null / start_bound and every
closure of the two functions.
"""
import os, re, subprocess, time, itertools

import c04_mir as M
from c04_mir import Unsupported, PanicPath, FV, cand, member, eqv, smt_bool, split_top, place_of

CORE = M.CORE


def enum_variants(path, name):
    src = open(f"{CORE}/src/{path}").read()
    m = re.search(r"pub enum " + name + r"\b[^{]*\{(.*?)\n\}", src, re.S)
    if not m:
        raise Unsupported(f"enum {name} not found in {path}")
    names = re.findall(r"^\s{4}(\w+)\s*(?:\(|,|\{|$)", m.group(1), re.M)
    if not names:
        raise Unsupported(f"enum {name}: no variants parsed")
    return {n: i for i, n in enumerate(names)}


def setup_variant_tables():
    ops = enum_variants("ir/mod.rs", "Operation")
    if len(ops) != 20 or "OneOf" not in ops:
        raise Unsupported("Operation variants changed: " + str(ops))
    arg = enum_variants("ir/mod.rs", "Argument")
    if set(arg) != {"Tag", "Variable"}:
        raise Unsupported("Argument variants changed: " + str(arg))
    cv = enum_variants("interpreter/hints/candidates.rs", "CandidateValue")
    if set(cv) != {"Impossible", "Single", "Multiple", "Range", "All"}:
        raise Unsupported("CandidateValue variants changed: " + str(cv))
    src = open(f"{CORE}/src/interpreter/hints/candidates.rs").read()
    m = re.search(r"pub struct Range<T> \{\s*start: Bound<T>,\s*end: Bound<T>,\s*null_included: bool,\s*\}", src)
    if not m:
        raise Unsupported("struct Range field order changed")
    M.VARIANT_INDEX["operation"] = ops
    M.VARIANT_INDEX["argument"] = arg
    M.VARIANT_INDEX["cand"] = cv
    M.VARIANT_INDEX["either"] = {"Left": 0, "Right": 1}
    return ops


def deref(v):
    while v.get("kind") == "ref":
        v = v["get"]()
    return v


def mkref(v):
    return {"kind": "ref", "get": (lambda x=v: x), "set": None}


def opt_some(x):
    return {"kind": "opt", "variant": "Some", "payload": [x]}


OPT_NONE = {"kind": "opt", "variant": "None", "payload": []}


def lst(items):
    return {"kind": "list", "items": list(items)}


def as_items(v):
    v = deref(v)
    if v.get("kind") == "list":
        return v["items"]
    if v.get("kind") == "fvlist":
        return v["elems"]
    raise Unsupported("expected a sequence, got " + str(v.get("kind")))


class SInterp(M.Interp):
    def __init__(self, fns):
        super().__init__(fns)
        self.closure_by_span = {}
        for k in fns:
            m = re.search(r"\(_1: &?(?:mut )?\{closure@([^}]+)\}", k)
            if m and "::{closure#" in k.split("(")[0]:
                self.closure_by_span.setdefault(m.group(1), []).append(k)

    # -- operands / rvalues ---------------------------------------------------------------------
    def operand(self, fr, s):
        s = s.strip()
        if s == "const ir::value::FieldValue::NULL":
            return FV(True, "0")
        m = re.match(r"^const ZeroSized: \{closure@([^}]+)\}$", s)
        if m:
            return {"kind": "closure", "span": m.group(1), "items": []}
        m = re.match(r"^const (\d+)_(u64|usize|i64)$", s)
        if m:
            return {"kind": "int", "v": int(m.group(1))}
        return super().operand(fr, s)

    def rvalue(self, fr, rhs):
        rhs = rhs.strip()
        m = re.match(r"^\{closure@([^}]+)\} \{ (.+) \}$", rhs)
        if m:
            items = []
            for f in split_top(m.group(2)):
                _, v = f.split(": ", 1)
                items.append(self.operand(fr, v))
            return {"kind": "closure", "span": m.group(1), "items": items}
        m = re.match(r"^Cow::<.*>::(Owned|Borrowed)\((.+)\)$", rhs)
        if m:
            return deref(self.operand(fr, m.group(2)))
        m = re.match(r"^CandidateValue::<.*>::(Single|Multiple|Range)\((.+)\)$", rhs)
        if m:
            return cand(m.group(1), [self.operand(fr, m.group(2))])
        m = re.match(r"^CandidateValue::<.*>::(Impossible|All)$", rhs)
        if m:
            return cand(m.group(1))
        if re.match(r"^Bound::<.*>::Unbounded$", rhs):
            return {"kind": "bound", "variant": "Unbounded", "payload": []}
        m = re.match(r"^Bound::<.*>::(Included|Excluded)\((.+)\)$", rhs)
        if m:
            return {"kind": "bound", "variant": m.group(1), "payload": [deref(self.operand(fr, m.group(2)))]}
        m = re.match(r"^Either::<.*>::(Left|Right)\((.+)\)$", rhs)
        if m:
            return {"kind": "either", "variant": m.group(1), "payload": [self.operand(fr, m.group(2))]}
        m = re.match(r"^std::option::Option::<.*>::Some\((.+)\)$", rhs)
        if m:
            return opt_some(self.operand(fr, m.group(1)))
        if re.match(r"^std::option::Option::<.*>::None$", rhs):
            return OPT_NONE
        m = re.match(r"^(Ge|Gt|Le|Lt|Eq|Ne)\((.+)\)$", rhs)
        if m:
            x, y = [self.operand(fr, o) for o in split_top(m.group(2))]
            def term(v):
                if v.get("kind") == "sint":
                    return v["t"]
                if v.get("kind") == "int":
                    return str(v["v"])
                raise Unsupported("comparison on " + str(v.get("kind")))
            op = {"Ge": ">=", "Gt": ">", "Le": "<=", "Lt": "<", "Eq": "=", "Ne": "distinct"}[m.group(1)]
            return {"kind": "sbool", "t": f"({op} {term(x)} {term(y)})"}
        m = re.match(r"^(move|copy) (\S+) as .+ \(PointerCoercion\(Unsize, \w+\)\)$", rhs)
        if m:
            return self.operand(fr, f"{m.group(1)} {m.group(2)}")
        return super().rvalue(fr, rhs)

    # -- calls ----------------------------------------------------------------------------------
    def closure_fn(self, c):
        if c.get("kind") != "closure":
            raise Unsupported("callee is not a closure value")
        hits = self.closure_by_span.get(c["span"], [])
        if len(hits) != 1:
            raise Unsupported(f"{len(hits)} MIR bodies for closure {c['span']}")
        return hits[0]

    def call_closure(self, c, *args):
        name = self.closure_fn(c)
        by_ref = re.search(r"\(_1: &", name) is not None
        a = {1: mkref(c) if by_ref else c}
        for i, x in enumerate(args):
            a[i + 2] = x
        return self.run(name, a)

    def call(self, fr, func, args):
        a = [self.operand(fr, x) for x in args]
        if re.match(r"^Operation::<.*>::right$", func):
            return self.run(self.find(r"^fn ir::<impl at [^>]*ir/mod\.rs[^>]*>::right\(_1: &Operation<LeftT, RightT>\)"), {1: a[0]})
        if func == "Argument::evaluate_statically":
            return self.run(self.find(r"^fn ir::<impl at [^>]*ir/mod\.rs[^>]*>::evaluate_statically\("), {1: a[0], 2: a[1]})
        if re.match(r"^std::option::Option::<.*>::and_then::<", func):
            o = a[0]
            if o.get("kind") != "opt":
                raise Unsupported("and_then on non-option")
            if o["variant"] == "None":
                return OPT_NONE
            return self.call_closure(a[1], o["payload"][0])
        if re.match(r"^std::option::Option::<.*>::expect$", func):
            o = a[0]
            if o.get("kind") != "opt":
                raise Unsupported("expect on non-option")
            if o["variant"] == "None":
                raise PanicPath("Option::expect on None")
            return o["payload"][0]
        if func == "std::option::Option::<u64>::unwrap_or_default":
            o = a[0]
            if o.get("kind") != "symopt":
                raise Unsupported("unwrap_or_default operand")
            return {"kind": "sint", "t": f"(ite {o['some']} {o['val']} 0)"}
        if func == "std::option::Option::<u64>::is_some":
            o = deref(a[0])
            if o.get("kind") != "symopt":
                raise Unsupported("is_some operand")
            return {"kind": "sbool", "t": o["some"]}
        if func == "FieldValue::as_u64":
            v = deref(a[0])
            if v.get("kind") != "fv":
                raise Unsupported("as_u64 on non-scalar")
            # value-level definition: Some(v) iff the value is a non-null integer in [0, 2^64)
            return {"kind": "symopt", "some": f"(and (not {smt_bool(v['null'])}) (>= {v['num']} 0) (<= {v['num']} {M.HI}))", "val": v["num"]}
        if func in ("<Arc<str> as AsRef<str>>::as_ref",) or re.match(r"^<Cow<.*> as (AsRef<FieldValue>>::as_ref|Deref>::deref)$", func) \
                or re.match(r"^<Vec<.*> as Deref>::deref$", func) or func == "<FieldValue as ToOwned>::to_owned" \
                or re.match(r"^Bound::<.*>::as_ref$", func) or re.match(r"^Box::<.*>::new$", func) \
                or re.match(r"^<.* as IntoIterator>::into_iter$", func) or re.match(r"^<.* as Iterator>::collect::<", func):
            return deref(a[0])
        if re.match(r"^<BTreeMap<Arc<str>, FieldValue> as std::ops::Index<&str>>::index$", func):
            n = deref(a[1])
            if n.get("kind") != "varname":
                raise Unsupported("map index by something that is not a variable name")
            return n["value"]
        m = re.match(r"^candidates::Range::<.*>::(with_start|with_end)$", func)
        if m:
            name = self.find(r"^fn candidates::<impl at [^>]*candidates\.rs[^>]*>::" + m.group(1) + r"\(_1: Bound<T>, _2: bool\)")
            return self.run(name, {1: a[0], 2: a[1]})
        if re.match(r"^candidates::Range::<.*>::full_non_null$", func):
            return self.run(self.find(r"^fn candidates::<impl at [^>]*candidates\.rs[^>]*>::full_non_null\(\)"), {})
        if re.match(r"^candidates::Range::<.*>::start_bound$", func):
            return self.run(self.find(r"^fn candidates::<impl at [^>]*candidates\.rs[^>]*>::start_bound\("), {1: a[0]})
        if re.match(r"^FieldValue::as_vec_with::<", func):
            v = deref(a[0])
            if v.get("kind") != "fvlist":
                return OPT_NONE
            out = []
            for e in v["elems"]:
                r = self.call_closure(a[1], mkref(e))
                if r.get("kind") != "opt":
                    raise Unsupported("as_vec_with closure result")
                if r["variant"] == "None":
                    return OPT_NONE
                out.append(deref(r["payload"][0]))
            return opt_some({"kind": "fvlist", "elems": out})
        if func == "FieldValue::as_slice":
            v = deref(a[0])
            return opt_some(v) if v.get("kind") == "fvlist" else OPT_NONE
        if re.match(r"^core::slice::<impl \[.*\]>::iter$", func):
            return lst(as_items(a[0]))
        if re.match(r"^once::<", func):
            return lst([a[0]])
        if re.match(r"^<.* as Itertools>::partition_map::<", func):
            left, right = [], []
            for it in as_items(a[0]):
                r = self.call_closure(a[1], it)
                if r.get("kind") != "either":
                    raise Unsupported("partition_map closure result")
                (left if r["variant"] == "Left" else right).append(r["payload"][0])
            return {"kind": "tuple", "items": [lst(left), lst(right)]}
        if re.match(r"^Vec::<.*>::is_empty$", func):
            return {"kind": "bool", "v": len(as_items(a[0])) == 0}
        if re.match(r"^<.* as Iterator>::fold::<", func):
            acc = a[1]
            for it in as_items(a[0]):
                acc = self.call_closure(a[2], acc, it)
            return acc
        if re.match(r"^<.* as Iterator>::filter_map::<", func):
            out = []
            for it in as_items(a[0]):
                # slice::Iter yields references to the elements, vec::IntoIter the elements themselves
                arg = mkref(it) if func.startswith("<std::slice::Iter<") else it
                r = self.call_closure(a[1], arg)
                if r.get("kind") != "opt":
                    raise Unsupported("filter_map closure result")
                if r["variant"] == "Some":
                    out.append(r["payload"][0])
            return lst(out)
        if re.match(r"^<.* as Iterator>::flatten$", func):
            out = []
            for it in as_items(a[0]):
                out += as_items(it)
            return lst(out)
        if re.match(r"^<.* as Iterator>::next$", func):
            r = a[0]
            if r.get("kind") != "ref":
                raise Unsupported("next on non-reference")
            items = as_items(r)
            if not items:
                return OPT_NONE
            r["set"](lst(items[1:]))
            return opt_some(items[0])
        if re.match(r"^<.* as Iterator>::all::<", func):
            ts = []
            for it in as_items(a[0]):
                r = self.call_closure(a[1], mkref(it))
                if r.get("kind") == "bool":
                    ts.append("true" if r["v"] else "false")
                elif r.get("kind") == "sbool":
                    ts.append(r["t"])
                else:
                    raise Unsupported("all closure result")
            return {"kind": "sbool", "t": "(and true " + " ".join(ts) + ")"}
        if re.match(r"^CandidateValue::<.*>::intersect$", func):
            r = a[0]
            r["set"](cand("Isect", a=deref(r), b=a[1]))
            return {"kind": "unit"}
        if re.match(r"^CandidateValue::<.*>::normalize$", func):
            return {"kind": "unit"}
        if re.match(r"^CandidateValue::<.*>::exclude_single_value", func):
            r = a[0]
            x = deref(a[1])
            if x.get("kind") != "fv":
                raise Unsupported("exclude_single_value of non-scalar")
            r["set"](cand("Excl", a=deref(r), x=x))
            return {"kind": "unit"}
        return super().call(fr, func, args)


# ----------------------------------------------------------------------------- filter items
LMAX = 3
SEMANTIC = {"IsNull", "IsNotNull", "Equals", "NotEquals", "LessThan", "LessThanOrEqual", "GreaterThan", "GreaterThanOrEqual", "OneOf", "NotOneOf"}


def decls(nf):
    h = ["(declare-const pn Bool)", "(declare-const pv Int)", f"(assert (and (>= pv (- {-M.LO})) (<= pv {M.HI})))"]
    for i in range(nf):
        h += [f"(declare-const a{i}n Bool)", f"(declare-const a{i}v Int)", f"(declare-const t{i} Bool)",
              f"(assert (and (>= a{i}v (- {-M.LO})) (<= a{i}v {M.HI})))"]
        for k in range(LMAX):
            h += [f"(declare-const e{i}_{k}n Bool)", f"(declare-const e{i}_{k}v Int)",
                  f"(assert (and (>= e{i}_{k}v (- {-M.LO})) (<= e{i}_{k}v {M.HI})))"]
    return h


def make_filter(i, spec):
    """spec = (operator, argkind) with argkind in: None (unary), 'tag', 'var', 'varnull', 'varnonnull', ('list', n).
    returns (operation value, SMT 'passes' term)."""
    op, ak = spec
    p = FV("pn", "pv")
    left = {"kind": "opaque", "what": "left"}
    if ak is None:
        return {"kind": "operation", "variant": op, "payload": [left]}, ("pn" if op == "IsNull" else "(not pn)")
    if ak == "tag":
        arg = {"kind": "argument", "variant": "Tag", "payload": [{"kind": "opaque", "what": "fieldref"}]}
        return {"kind": "operation", "variant": op, "payload": [left, arg]}, f"t{i}"
    if isinstance(ak, tuple):
        val = {"kind": "fvlist", "elems": [FV(f"e{i}_{k}n", f"e{i}_{k}v") for k in range(ak[1])]}
    else:
        null = {"var": f"a{i}n", "varnull": True, "varnonnull": False}[ak]
        val = FV(null, f"a{i}v")
    name = {"kind": "varname", "value": val}
    vref = {"kind": "struct", "items": [name, {"kind": "opaque", "what": "type"}]}
    arg = {"kind": "argument", "variant": "Variable", "payload": [vref]}
    if op in M.OPS:
        passes = M.OPS[op](p, val)
    elif op in ("OneOf", "NotOneOf"):
        inl = "(or false " + " ".join(eqv(p, e) for e in val["elems"]) + ")"
        passes = inl if op == "OneOf" else f"(not {inl})"
    else:
        passes = f"t{i}"          # any semantics at all: the constructor must stay sound without looking
    return {"kind": "operation", "variant": op, "payload": [left, arg]}, passes


def item_kinds(ops, tier):
    """the filter kinds a list is drawn from"""
    full = [("IsNull", None), ("IsNotNull", None)]
    for op in ops:
        if op in ("IsNull", "IsNotNull"):
            continue
        full.append((op, "tag"))
        if op in ("OneOf", "NotOneOf"):
            for n in ((2,) if tier == "quick" else (0, 1, 2, 3)):
                full.append((op, ("list", n)))
        elif op == "NotEquals":
            # concrete nullness (one path each) and symbolic nullness (the code branches on it: two paths, forked)
            full += [(op, "varnull"), (op, "varnonnull"), (op, "var")]
        elif op == "Equals":
            full += [(op, "var")]
        elif op in M.ORDERING:
            full += [(op, "varnonnull")]
        else:
            full += [(op, "varnonnull")]
    core = [k for k in full if k[0] in SEMANTIC and k[1] != "tag"] + [("Equals", "tag"), ("LessThan", "tag"), ("Contains", "varnonnull"), ("NotContains", "tag")]
    return full, core


def label(spec):
    op, ak = spec
    if ak is None:
        return op
    if isinstance(ak, tuple):
        return f"{op}$list{ak[1]}"
    return f"{op}{'%' if ak == 'tag' else '$'}{'' if ak in ('tag', 'var') else ak[3:]}"


def static_obligations(interp, ops, tier):
    full, core = item_kinds(ops, tier)
    combos = [(k,) for k in full] + list(itertools.product(core, repeat=2))
    if tier != "quick":
        combos += list(itertools.product(core, repeat=3))
    fn = interp.find(r"^fn candidate_from_statically_evaluated_filters\(")
    for combo in combos:
        for nullable in (True, False):
            built = [make_filter(i, s) for i, s in enumerate(combo)]
            filters = lst([mkref(o) for o, _ in built])
            oid = "S1/" + "+".join(label(s) for s in combo) + f"/nullable={int(nullable)}"
            def mkargs(built=built, nullable=nullable):
                return {1: lst([mkref(o) for o, _ in built]), 2: {"kind": "opaque", "what": "query_variables"}, 3: {"kind": "bool", "v": nullable}}
            paths = interp.run_paths(fn, mkargs)
            prem = "(and " + " ".join(p for _, p in built) + (" true" if nullable else " (not pn)") + ")"
            bad, hinted = [], False
            for pc, res in paths:
                pct = "(and true " + " ".join(pc) + ")"
                if isinstance(res, PanicPath):
                    bad.append(pct)          # a panic while computing a hint for admitted arguments counts as a failure
                    hinted = True
                    continue
                if res.get("kind") != "opt":
                    raise Unsupported("static constructor result shape")
                if res["variant"] == "None":
                    continue
                hinted = True
                bad.append(f"(and {pct} (not {member(deref(res['payload'][0]), FV('pn', 'pv'))}))")
            if not hinted:
                yield (oid, "nohint", None, {"combo": combo, "nullable": nullable})
                continue
            yield (oid, f"(and {prem} (or false {' '.join(bad)}))", prem, {"combo": combo, "nullable": nullable})


def mandatory_obligations(interp, tier):
    fn = interp.find(r"^fn fold_requires_at_least_one_element::\{closure#1\}\(")
    closure = {"kind": "closure", "span": "-", "items": []}
    shapes = [("Impossible", cand("Impossible")), ("All", cand("All")), ("Single", cand("Single", [FV("a0n", "a0v")]))]
    for n in range(0, 4 if tier != "quick" else 3):
        shapes.append((f"Multiple{n}", cand("Multiple", [{"kind": "fvlist", "elems": [FV(f"e0_{k}n", f"e0_{k}v") for k in range(n)]}])))
    def bound(kind, i):
        return {"kind": "bound", "variant": kind, "payload": [] if kind == "Unbounded" else [FV(False, f"a{i}v")]}
    for sk in ("Included", "Excluded", "Unbounded"):
        for ek in ("Included", "Excluded", "Unbounded"):
            for ni in (True, False):
                shapes.append((f"Range[{sk},{ek},null={int(ni)}]", cand("Range", [{"kind": "range", "start": bound(sk, 0), "end": bound(ek, 1), "null_included": ni}])))
    zero = FV(False, "0")
    for name, c in shapes:
        terms = []
        for pc, r in interp.run_paths(fn, lambda c=c: {1: closure, 2: c}):
            if isinstance(r, PanicPath):
                raise Unsupported("mandatory classification panics on " + name)
            if r.get("kind") == "bool":
                rt = "true" if r["v"] else "false"
            elif r.get("kind") == "sbool":
                rt = r["t"]
            else:
                raise Unsupported("mandatory closure result")
            terms.append("(and true " + " ".join(pc) + " " + rt + ")")
        t = "(or false " + " ".join(terms) + ")"
        yield ("S2/" + name, f"(and {t} {member(c, zero)})", t, {"shape": name, "mandatory": t})


# ----------------------------------------------------------------------------- solving (batched)
def batch(solver, header, asserts):
    """one solver process, push/pop per query; returns a verdict per query or raises Unsupported."""
    script = ["(set-logic ALL)"] + header
    for a in asserts:
        script += ["(push 1)", f"(assert {a})", "(check-sat)", "(pop 1)"]
    cmd = {"z3": ["/usr/bin/z3", "-in", "-T:600"], "cvc5": ["cvc5", "--lang", "smt2", "--incremental", "--tlimit=600000"]}[solver]
    t = time.time()
    r = subprocess.run(cmd, input="\n".join(script) + "\n", capture_output=True, text=True)
    out = [ln.strip() for ln in r.stdout.splitlines() if ln.strip()]
    if any(ln.startswith("(error") for ln in out) or len(out) != len(asserts) or any(v not in ("sat", "unsat", "unknown") for v in out):
        raise Unsupported(f"{solver} batch: unexpected output: " + " | ".join(out[:5]) + r.stderr[:300])
    return out, time.time() - t


def model_for(header, assertion):
    smt = "\n".join(["(set-logic ALL)"] + header + [f"(assert {assertion})", "(check-sat)", "(get-model)"])
    r, out, s = M.solve(smt, "z3")
    vals = {}
    for m in re.finditer(r"\(define-fun (\w+) \(\) (Int|Bool)\s+([^\n]+?)\)\s*(?=\(define-fun|\)\s*$|$)", out, re.S):
        name, ty, v = m.group(1), m.group(2), m.group(3).strip()
        if ty == "Bool":
            vals[name] = (v == "true")
        else:
            mm = re.match(r"^\(- (\d+)\)$", v)
            vals[name] = -int(mm.group(1)) if mm else int(v) if re.match(r"^-?\d+$", v) else None
    return r, vals, s


# ----------------------------------------------------------------------------- native side
OPNAME_OK = SEMANTIC


def enc_filter(i, spec, vals):
    """concrete filter for the native test from a model: Op,argkind,value"""
    op, ak = spec
    if ak is None:
        return f"{op},-,n"
    if ak == "tag":
        return f"{op},t,n"
    if isinstance(ak, tuple):
        v = [None if vals.get(f"e{i}_{k}n") else (vals.get(f"e{i}_{k}v") or 0) for k in range(ak[1])]
    elif ak == "varnull" or (ak == "var" and vals.get(f"a{i}n")):
        v = None
    else:
        v = vals.get(f"a{i}v") or 0
    return f"{op},v,{M.enc(v)}"


def native_static(cases):
    """cases: list of strings 'S|nullable|p|f;f;..' or 'M|f;f;..' -> list of dicts parsed from the real code's output"""
    env = dict(M.ENV, CARGO_TARGET_DIR=M.NATIVE_TARGET, C04S_CASES="\n".join(cases))
    r = subprocess.run(["cargo", "test", "--offline", "--manifest-path", f"{M.VERIF}/harness/Cargo.toml", "--lib", "c04_static_native", "--", "--nocapture", "--test-threads", "1"],
                       env=env, capture_output=True, text=True)
    res = []
    for ln in r.stdout.splitlines():
        m = re.search(r"C04SCASE (\d+) (.*)$", ln.strip())
        if m:
            res.append(dict(kv.split("=") for kv in m.group(2).split()))
    if len(res) != len(cases):
        raise Unsupported("native static run did not report every case: " + r.stdout[-600:] + r.stderr[-1200:])
    return res


def lit(x):
    return "0" if x is None else (str(x) if x >= 0 else f"(- {-x})")


def concrete_env(nf, assign):
    """SMT assertions fixing every declared constant to the values in `assign` (missing = 0 / false)."""
    out = []
    names = ["pn", "pv"] + [x for i in range(nf) for x in (f"a{i}n", f"a{i}v", f"t{i}")] + [f"e{i}_{k}{s}" for i in range(nf) for k in range(LMAX) for s in "nv"]
    for n in names:
        v = assign.get(n)
        if n.endswith("n") or n.startswith("t"):
            out.append(f"(= {n} {'true' if v else 'false'})")
        else:
            out.append(f"(= {n} {lit(v if v is not None else 0)})")
    return "(and " + " ".join(out) + ")"


def run(fns, tier):
    """returns dict: queries, violations [(oid, replay line, description)], inconclusive [...], encoded, solver_s, validated, notes"""
    out = {"queries": [], "violations": [], "inconclusive": [], "encoded": [], "solver_s": 0.0, "validated": 0, "notes": [], "nq": 0, "nunsat": 0}
    ops = setup_variant_tables()
    interp = SInterp(fns)
    NF = 3
    header = decls(NF)
    obs = list(static_obligations(interp, list(ops), tier)) + list(mandatory_obligations(interp, tier))
    todo = [(oid, a, prem, meta) for oid, a, prem, meta in obs if a not in (None, "nohint")]
    nohint = sum(1 for o in obs if o[1] == "nohint")
    panics = [o for o in obs if o[1] is None]
    for oid, _, _, meta in panics:
        out["inconclusive"].append(f"{oid}: the encoding reaches a panic ({meta['panic']})")
    z, s1 = batch("z3", header, [a for _, a, _, _ in todo])
    c, s2 = batch("cvc5", header, [a for _, a, _, _ in todo])
    pz, s3 = batch("z3", header, [prem for _, _, prem, _ in todo])
    out["solver_s"] += s1 + s2 + s3
    vac = 0
    bad = []
    for (oid, a, prem, meta), rz, rc, rp in zip(todo, z, c, pz):
        out["nq"] += 1
        if rp == "unsat":
            vac += 1            # e.g. is_null together with is_not_null: nothing passes, nothing to exclude
        if rz == "unsat" and rc == "unsat":
            out["nunsat"] += 1
            continue
        if rz == "sat" and rc in ("sat", "unknown"):
            bad.append((oid, a, meta))
        else:
            out["inconclusive"].append(f"{oid}: solvers disagree or undecided (z3={rz}, cvc5={rc})")
    out["notes"].append(f"static part: {len(todo)} obligations ({sum(1 for o in todo if o[0].startswith('S1/'))} filter lists x nullability with a hint, {sum(1 for o in todo if o[0].startswith('S2/'))} candidate shapes for the mandatory-fold classification), {nohint} filter lists yield no hint, {vac} have an unsatisfiable premise (contradictory filters)")
    if len(todo) - vac < len(todo) // 2:
        out["inconclusive"].append("static part: more than half of the premises are unsatisfiable - vacuous")
    sample_idx = list(range(min(4, len(todo)))) + [i for i, t_ in enumerate(todo) if t_[0].startswith("S2/")][:2]
    for i in sample_idx:
        oid = todo[i][0]
        out["queries"].append({"id": oid, "z3": z[i], "cvc5": c[i], "premise_satisfiable": pz[i], "closure": "candidate_from_statically_evaluated_filters" if oid.startswith("S1/") else "fold_requires_at_least_one_element::{closure#1}"})

    # ---- translator validation: concrete cases through the real function and through the encoding
    try:
        vcases, vmeta = [], []
        grid_vals = (None, -(2 ** 63), -1, 0, 1, 3, 2 ** 63, 2 ** 64 - 1)
        full, core = item_kinds(list(ops), "quick")
        sem = [k for k in core if k[0] in SEMANTIC and k[1] != "tag"]
        import random
        # the grid only validates the translator (it is not the deciding step); VERIF_SEED varies which cases are drawn
        rnd = random.Random(4 + int(os.environ.get("VERIF_SEED", "0") or 0))
        combos = [(k,) for k in sem] + rnd.sample(list(itertools.product(sem, repeat=2)), 40)
        for combo in combos:
            for nullable in (True, False):
                for _ in range(3):
                    assign = {}
                    for i, (op, ak) in enumerate(combo):
                        v = rnd.choice(grid_vals[1:]) if (op in M.ORDERING or ak == "varnonnull") else rnd.choice(grid_vals)
                        assign[f"a{i}n"] = v is None
                        assign[f"a{i}v"] = v or 0
                        for k in range(LMAX):
                            e = rnd.choice(grid_vals)
                            assign[f"e{i}_{k}n"] = e is None
                            assign[f"e{i}_{k}v"] = e or 0
                    pv = rnd.choice(grid_vals)
                    assign["pn"], assign["pv"] = pv is None, pv or 0
                    fl = ";".join(enc_filter(i, s, assign) for i, s in enumerate(combo))
                    vcases.append(f"S|{int(nullable)}|{M.enc(pv)}|{fl}")
                    vmeta.append((combo, nullable, assign))
        real = native_static(vcases)
        asserts, idx = [], []
        for k, ((combo, nullable, assign), r) in enumerate(zip(vmeta, real)):
            # a concrete case has concrete nullness: take the one-path shape of `!=`
            conc = [(("NotEquals", "varnull" if assign[f"a{i}n"] else "varnonnull") if s == ("NotEquals", "var") else s) for i, s in enumerate(combo)]
            built = [make_filter(i, s) for i, s in enumerate(conc)]
            vpaths = interp.run_paths(interp.find(r"^fn candidate_from_statically_evaluated_filters\("), lambda built=built, nullable=nullable: {1: lst([mkref(o) for o, _ in built]), 2: {"kind": "opaque"}, 3: {"kind": "bool", "v": nullable}})
            if len(vpaths) != 1 or isinstance(vpaths[0][1], PanicPath):
                out["validated"] += 0       # forking constructors are validated through replay only
                continue
            res = vpaths[0][1]
            if (res["variant"] == "None") != (r["cand"] == "none"):
                out["inconclusive"].append(f"translator validation: hint presence differs for {vcases[k]}")
                continue
            if res["variant"] == "None":
                out["validated"] += 1
                continue
            envc = concrete_env(NF, assign)
            mem = member(deref(res["payload"][0]), FV("pn", "pv"))
            passes = "(and true " + " ".join(p for _, p in built) + ("" if nullable else " (not pn)") + ")"
            asserts += [f"(and {envc} {mem})", f"(and {envc} {passes})"]
            idx.append(k)
        if asserts:
            v, s = batch("z3", header, asserts)
            out["solver_s"] += s
            for j, k in enumerate(idx):
                mem_model, pass_model = v[2 * j] == "sat", v[2 * j + 1] == "sat"
                r = real[k]
                combo = vmeta[k][0]
                if pass_model != (r["passes"] == "true"):
                    out["inconclusive"].append(f"translator validation: reference 'passes' = {pass_model}, real kernels say {r['passes']} for {vcases[k]}")
                elif not mem_model and r["member"] == "true" and any(o in ("NotEquals", "NotOneOf") for o, _ in combo):
                    out["validated"] += 1    # the encoding keeps the minimum exclude_single_value may keep (it cannot cut a point out of a range)
                elif mem_model != (r["member"] == "true"):
                    out["inconclusive"].append(f"translator validation: encoding says member={mem_model}, real code says {r['member']} for {vcases[k]}")
                else:
                    out["validated"] += 1
    except (Unsupported, PanicPath) as e:
        out["inconclusive"].append(f"translator validation (static) failed to run: {e}")

    # ---- counterexamples: replay against the real code
    for oid, a, meta in bad:
        r, vals, s = model_for(header, a)
        out["solver_s"] += s
        if r != "sat":
            out["inconclusive"].append(f"{oid}: could not re-derive the model ({r})")
            continue
        if oid.startswith("S1/"):
            combo, nullable = meta["combo"], meta["nullable"]
            if any(k[0] not in SEMANTIC or k[1] == "tag" for k in combo):
                # free-semantics filters: replay with the others only is not the same list; keep them (they never produce candidates
                # natively either) but 'passes' of an opaque filter cannot be evaluated -> treated as passing in the native test
                pass
            pval = None if vals.get("pn") else (vals.get("pv") or 0)
            line = f"S|{int(nullable)}|{M.enc(pval)}|" + ";".join(enc_filter(i, s_, vals) for i, s_ in enumerate(combo))
            try:
                (res,) = native_static([line])
            except Unsupported as e:
                out["inconclusive"].append(f"{oid}: replay failed to run: {e}")
                continue
            if res["passes"] == "true" and res["cand"] == "some" and res["member"] == "false":
                out["violations"].append((oid, line, f"candidate_from_statically_evaluated_filters: the static hint for [{', '.join(label(s_) for s_ in combo)}] (field nullable={nullable}) excludes property value {pval}, which passes every filter"))
            else:
                out["inconclusive"].append(f"{oid}: counterexample {line} did not reproduce natively ({res}): encoding wrong")
        else:
            shape = meta["shape"]
            fl = None
            a0, a1 = vals.get("a0v") or 0, vals.get("a1v") or 0
            if shape == "Single":
                fl = f"Equals,v,{M.enc(None if vals.get('a0n') else a0)}"
            elif shape.startswith("Multiple"):
                n = int(shape[8:])
                fl = "OneOf,v," + M.enc([None if vals.get(f"e0_{k}n") else (vals.get(f"e0_{k}v") or 0) for k in range(n)])
            elif shape.startswith("Range["):
                sk, ek = shape[6:].split(",")[:2]
                parts = []
                if sk != "Unbounded":
                    parts.append(f"{'GreaterThanOrEqual' if sk == 'Included' else 'GreaterThan'},v,{a0}")
                if ek != "Unbounded":
                    parts.append(f"{'LessThanOrEqual' if ek == 'Included' else 'LessThan'},v,{a1}")
                fl = ";".join(parts) if parts else None
            if not fl:
                out["inconclusive"].append(f"{oid}: solver found a counterexample ({vals}) but no filter list produces this candidate natively")
                continue
            line = f"M|{fl}"
            try:
                (res,) = native_static([line])
            except Unsupported as e:
                out["inconclusive"].append(f"{oid}: replay failed to run: {e}")
                continue
            if res["mandatory"] == "true" and res["empty_passes"] == "true":
                out["violations"].append((oid, line, f"fold_requires_at_least_one_element reports the fold as mandatory for count filters [{fl}] although an empty fold (count 0) passes them"))
            else:
                out["inconclusive"].append(f"{oid}: counterexample {line} did not reproduce natively ({res})")
    out["encoded"] = sorted(interp.encoded)
    return out


if __name__ == "__main__":
    import sys
    mir = open(os.environ.get("C04_MIR_FILE", "/tmp/core.mir")).read()
    o = run(M.split_functions(mir), sys.argv[1] if len(sys.argv) > 1 else "quick")
    for k, v in o.items():
        if k != "queries":
            print(k, "=", v if not isinstance(v, list) or len(v) < 30 else (v[:30], "..."))
