#!/usr/bin/env python3
"""Writes MANIFEST.json from props.py + the not-applicable table below."""
import json, os, subprocess
from props import PROPS

HERE = os.path.dirname(os.path.abspath(__file__))

LEVEL = {
    "C22": ("Kernel-level only: the arithmetic that turns count filters into fold-size limits (get_max_fold_count_limit / get_min_fold_count_limit, real code) is sound for every argument value and every count: no count above the max limit can pass the filters, and truncating at the min limit never changes the filters' verdict. How and when the limits are applied inside compute_fold is not claimed.", "5 C22"),
    "C06": ("Bounded model checking of the repository's generic candidate algebra (monomorphised at a heap-free integer/null value type): for every ordered pair of candidate shapes the solver decides, for all 64-bit endpoints, elements and probe values, that membership after intersect/normalize/exclude is exactly the set-theoretic one. Bounded (Multiple <= 2/3, integer endpoints), hence model_checking and not proof.", "5 C06"),
    "C07": ("Bounded model checking of the real filter operator kernels against a reference written from the operator documentation: for each pair of operand shapes CBMC decides every operator's result for all payload values (2^128 integer pairs, all finite floats, all ASCII strings up to the length bound).", "5 C07"),
    "C08": ("Bounded model checking of PartialEq/PartialOrd for FieldValue: reflexive/symmetric/transitive equality, total antisymmetric transitive order, agreement with numeric order, for all payloads of every triple of shapes within the size bound.", "5 C08"),
    "C09": ("Kernel-level only: the value-level operations an accepted query performs cannot panic. Three lemmas decided by CBMC on the real code (frontend type inference/operand check; operator kernels on every admitted operand shape; fold-count conversion). The pipeline around them is not claimed.", "5 C09"),
    "C12": ("Kernel-level only: the per-variable accept/refuse decision Type::is_valid_value equals the reference 'value fits type' for all types to depth 1 (3 thorough) with symbolic nullability and all value payloads. The missing/unused bookkeeping is not claimed.", "5 C12"),
    "C13": ("Kernel-level only: the type a compiled query *declares* for an output (ir/indexed.rs::get_output_type, real code) follows the documented rule for every nullability of the property type: nullable inside @optional, one list level per enclosing @fold, innermost fold innermost, list nullable iff that fold is optional; fold counts are Int! outside optional scopes. That produced rows carry values of that type is not claimed.", "5 C13"),
    "C16": ("Part only: FieldValue <-> TransparentValue conversion is the identity for all payloads of the enumerated shapes. Text formats and the Type text round trip were measured to be out of reach and are not claimed.", "5 C16"),
    "C17": ("Bounded model checking of the real Type operations (intersect, is_scalar_only_subtype, equal_ignoring_nullability, is_valid_value, with_nullability, constructors/accessors) against the level-wise lattice oracle and in law form, nullability symbolic at every level, list depth <= 1 (3 thorough).", "5 C17"),
    "C18": ("Bounded model checking of FieldValueDeserializer + serde's primitive visitors for numeric/bool/option targets: decode is exact or an error for every 64-bit source value; never wrapped.", "5 C18"),
}
TECH = "Kani proof harnesses over the compiled trustfall_core (CBMC bounded model checking, CaDiCaL SAT); symbolic payloads, concrete shapes; counterexamples replayed natively"

NA = {
    "C01": "whole-pipeline property: interpret_ir could not be symbolically executed (2 h / >5 GB without leaving IndexedQuery construction; EdgeExpander / collect_fold_elements alone >10 min); value-level filter semantics are decided under C07",
    "C02": "quantifies over pull schedules of the boxed iterator tower; same obstacle as C01 and Kani cannot make the interleaving symbolic without executing the pipeline",
    "C03": "needs the pipeline executed with a counting source; same obstacle as C01",
    "C05": "relates required_properties() (HashSet walk over IndexedQuery) to resolve_property calls made by the pipeline; needs pipeline execution",
    "C10": "input is arbitrary text through a pest-generated parser into HashMap-backed AST and Schema; orders of magnitude beyond what did not finish for a 1-vertex hand-built IR",
    "C11": "quantifies over frontend outputs; same obstacle as C10",
    "C14": "determinism across processes and hash seeds is not a property of one symbolic execution; Kani's model has no hash seed and no second process",
    "C15": "trace recording/replay wraps the whole pipeline plus serde of the trace",
    "C19": "schema text -> pest parser -> HashMap-based validation; out of reach like C10",
    "C20": "the introspection adapter is exercised by pipeline runs over a parsed Schema",
    "C21": "observable only at the adapter boundary of a pipeline run",
    "C23": "relations between two pipeline runs; the operator-level relations in the statement ('=' vs one_of singleton, a filter and its negation are complements) are decided inside C07",
    "C24": "thread-safety: Kani models atomics sequentially and has no threads; Send/Sync is a type check, not a solver query",
    "C25": "the invariant checker drives adapters through schema-derived pipelines",
    "C26": "'the generated text compiles' is decided by rustc, not by a solver",
    "C27": "the code under test is PyO3 FFI into a Python interpreter",
}


def main():
    props = [json.loads(l) for l in open(os.path.join(HERE, "properties.jsonl"))]
    ids = [p["id"] for p in props]
    assert set(PROPS) | set(NA) | {"C04"} == set(ids) and not (set(PROPS) & set(NA)), (set(ids) - set(PROPS) - set(NA))
    hook_commits = subprocess.run(["git", "-C", "/repo", "log", "--format=%h %s"], capture_output=True, text=True).stdout.splitlines()
    hooks = [l.split()[0] for l in hook_commits if l.split(" ", 1)[1].startswith("verif hooks")]
    checks = []
    for pid in sorted(PROPS):
        text, ref = LEVEL[pid]
        checks.append({
            "property_id": pid,
            "quick_cmd": f"./check {pid} --tier quick",
            "thorough_cmd": f"./check {pid} --tier thorough",
            "evidence_file": f"/verif/evidence/{pid}.json",
            "replay_cmd_template": "./check --replay {path}",
            "engine": "kani",
            "level_claimed": {"category": "model_checking", "text": text, "design_ref": "DESIGN.md section " + ref},
            "level_note": "Bounds: " + PROPS[pid]["bounds"]["quick"] + " | thorough: " + PROPS[pid]["bounds"]["thorough"]
                          + " | Outside the claim: " + PROPS[pid]["outside"] + " | Trusted: kani-compiler, CBMC, CaDiCaL; harness-side reference definitions (src/refmodel.rs, tyshape.rs, c06.rs member()); stubs: std::fmt::format",
            "technique": TECH,
        })
    checks.append({
        "property_id": "C04",
        "quick_cmd": "python3 c04_mir.py --tier quick",
        "thorough_cmd": "python3 c04_mir.py --tier thorough",
        "evidence_file": "/verif/evidence/C04.json",
        "replay_cmd_template": "python3 c04_mir.py --replay {path}",
        "engine": "mir-smt",
        "level_claimed": {"category": "model_checking", "text": "Kernel-level only (the three hint constructors, not the pipeline): (1) dynamic hints - for each filter operator, the closure that hints/dynamic.rs builds to turn a resolved tag value into a candidate (compute_candidate_from_operation and resolve_fold_specific_field, plus Range::with_start / with_end) never excludes a value that passes the filter, for every tag value, probe value and initial candidate; (2) static hints - hints/filters.rs::candidate_from_statically_evaluated_filters, whole body and all closures, on every list of up to 2 (3 thorough) filters: a value that passes every filter is in the returned candidate, for every argument value; (3) mandatory folds - fold_requires_at_least_one_element's classification returns true only for candidates that do not contain 0. All executed symbolically from rustc's MIR, decided by z3 and cross-checked by cvc5. Non-binding filters, which filters reach the constructors, and the end-to-end statement are not claimed.", "design_ref": "DESIGN.md section 5 C04"},
        "level_note": "Bounds: every integer tag / argument / probe in [-2^63, 2^64) (integers standing for any totally ordered scalar kind), null probes, null arguments for = and !=, one_of / not_one_of lists of 2 elements (0..=4 dynamic, 0..=3 static in thorough) with nulls anywhere; dynamic: one filter per hint, arbitrary initial candidate (uninterpreted predicate); static: all single filters over the 20 operators x ($variable | %tag), all pairs (triples in thorough) over 16 filter kinds, field nullable or not; mandatory classification: all candidate shapes with Multiple <= 2 (3 thorough) | Outside the claim: non-binding filters (NeighborInfo), EdgeInfo::is_mandatory for plain edges, the selection of filters in vertex_info.rs, the pruning-adapter == plain-adapter statement; counterexamples in resolve_fold_specific_field cannot be replayed natively (no entry point without a pipeline) and are reported as inconclusive (exit 2), not as VIOLATION | Trusted: rustc nightly MIR dump, the MIR interpreter in c04_mir.py / c04_static.py (validated on every run against the real functions on 400+ concrete cases), z3, cvc5; callee summaries: CandidateValue intersect / exclude_single_value / normalize (the laws decided by C06), clone / as_slice / to_vec, and for the static part the std iterator / Option / Vec / BTreeMap-index operations listed in the evidence file",
        "technique": "symbolic execution of rustc MIR (own interpreter) to SMT-LIB2, decided by z3 4.8.12 and cvc5 1.0; counterexamples replayed natively against the real function",
    })
    checks.sort(key=lambda c: c["property_id"])
    m = {
        "version": 1,
        "setup_cmd": "cp -f /repo/Cargo.lock /verif/harness/Cargo.lock && cd /verif/harness && (CARGO_NET_OFFLINE=true cargo kani --target-dir target/kani --only-codegen -Z unstable-options -Z stubbing --harness c18::quick::bool_identity >/dev/null 2>&1 || true) && (cd /verif && C04_PREBUILD=1 python3 c04_mir.py >/dev/null 2>&1 || true)",
        "hooks": {
            "guard": "cargo feature `trustfall_verif` of trustfall_core (off by default; nothing is compiled without it)",
            "enable": "/verif/harness depends on /repo/trustfall_core by path with features=[\"trustfall_verif\"]; every check rebuilds it from the working tree with cargo kani",
            "baseline_off_cmd": "cd /repo && (cargo nextest run --workspace --no-fail-fast --tool-config-file pb:/w/lib/nextest.toml --profile pb --test-threads 8 --offline || cargo test --workspace --no-fail-fast --offline)",
            "source_commits": hooks,
            "add_only": True,
        },
        "engines": [{
            "name": "mir-smt", "path": "/verif/c04_mir.py", "serves_properties": ["C04"],
            "kind_free_text": "rustc nightly -Zunpretty=mir dump of trustfall_core (regenerated from /repo's working tree on every run) -> small symbolic MIR interpreter -> SMT-LIB2 -> z3 + cvc5; native replay through the harness crate's c04_native test",
        }, {
            "name": "kani", "path": "/verif/harness", "serves_properties": sorted(PROPS),
            "kind_free_text": "Kani 0.68 proof harnesses (rustc MIR -> goto -> CBMC 6.11 + CaDiCaL) over trustfall_core compiled from /repo's working tree; driver /verif/check parses Kani's JSON export, enforces vacuity witnesses, replays counterexamples natively",
        }],
        "checks": checks,
        "notes": "Exit 2 of a check = inconclusive (build failure, timeout, out of memory, unwinding bound hit, vacuous harness, non-reproducing counterexample); never reported as success. Genuine defects found and repaired are listed in known_findings.json (fixed:) and DESIGN.md section 6.",
        "not_applicable": [{"property_id": k, "reason": NA[k]} for k in sorted(NA)],
    }
    json.dump(m, open(os.path.join(HERE, "MANIFEST.json"), "w"), indent=1)
    print("wrote MANIFEST.json:", len(checks), "checks,", len(NA), "not applicable")


if __name__ == "__main__":
    main()
