#!/usr/bin/env python3
"""C04 (kernel): dynamic hint candidates never exclude a value that passes the filter they come from.

Solver-based check of the real code through its compiler IR:
  * the MIR of trustfall_core is dumped from /repo's working tree on every run (nightly rustc,
    -Zunpretty=mir);
  * the closures generated inside `hints/dynamic.rs::compute_candidate_from_operation` and
    `DynamicallyResolvedValue::resolve_fold_specific_field` (one per filter operator) and the
    constructors `Range::with_start` / `Range::with_end` they call are executed symbolically by the
    small MIR interpreter below: the tag value, the probe value and the initial candidate are SMT
    variables / an uninterpreted predicate;
  * callee summaries (the only modelled code): `CandidateValue::intersect` = set intersection and
    `exclude_single_value` = removal of one value -- exactly the laws C06 decides on the real generic
    code -- plus clone / as_slice / to_vec / unwrap_or_else as identities;
  * property, per operator: passes(op, p, tag) and Init(p)  =>  member(result, p);
    and for a tag from a non-existent optional scope: Init(p) => member(result, p);
  * z3 decides each query (unsat = holds for all values); cvc5 cross-checks; a model is replayed
    natively against the real `compute_candidate_from_operation` before a VIOLATION is printed.
Anything the interpreter does not understand makes the run inconclusive (exit 2), never a pass.
"""
import json, os, re, subprocess, sys, time

VERIF = os.path.dirname(os.path.abspath(__file__))
REPO = "/repo"
CORE = f"{REPO}/trustfall_core"
MIR_TARGET = f"{VERIF}/harness/target/mir"
NATIVE_TARGET = f"{VERIF}/harness/target/native"
ENV = dict(os.environ, CARGO_NET_OFFLINE="true")


class Unsupported(Exception):
    pass


class PanicPath(Exception):
    pass


class NeedFork(Exception):
    """a switchInt on a symbolic condition beyond the decisions taken so far"""
    pass


# ----------------------------------------------------------------------------- MIR dump + parse
def dump_mir():
    if os.environ.get("C04_MIR_FILE"):   # development aid only: reuse an existing dump
        return open(os.environ["C04_MIR_FILE"]).read(), 0.0, "reused " + os.environ["C04_MIR_FILE"]
    nonce = f"verif_mir_{int(time.time())}_{os.getpid()}"
    cmd = ["cargo", "+nightly", "rustc", "--offline", "--lib", "--manifest-path", f"{CORE}/Cargo.toml",
           "--", "-Zunpretty=mir", "-C", "debug-assertions=off", "-A", "warnings", "--cfg", nonce]
    env = dict(ENV, CARGO_TARGET_DIR=MIR_TARGET)
    t = time.time()
    r = subprocess.run(cmd, env=env, capture_output=True, text=True)
    if r.returncode != 0 or "fn " not in r.stdout:
        raise Unsupported("MIR dump failed: " + r.stderr[-800:])
    return r.stdout, time.time() - t, " ".join(cmd)


def split_functions(mir):
    """name-line -> list of body lines, for every `fn ...` item of the dump."""
    fns = {}
    cur = None
    for line in mir.splitlines():
        if line.startswith("fn ") or (line.startswith("const ") and "::promoted[" in line and line.endswith("{")):
            cur = line
            fns[cur] = []
        elif cur is not None:
            if line == "}":
                cur = None
            else:
                fns[cur].append(line)
    return fns


def parse_blocks(lines):
    bbs = {}
    cur = None
    for ln in lines:
        m = re.match(r"^\s{4}(bb\d+)( \(cleanup\))?: \{$", ln)
        if m:
            cur = m.group(1)
            bbs[cur] = []
            continue
        if cur is not None:
            s = ln.strip()
            if s == "}":
                cur = None
            elif s:
                bbs[cur].append(s)
    return bbs


def split_top(s, sep=","):
    out, depth, cur = [], 0, ""
    i = 0
    while i < len(s):
        c = s[i]
        if c in "([{<":
            depth += 1
        elif c in ")]}":
            depth -= 1
        elif c == ">" and i > 0 and s[i - 1] != "-" and s[i - 1] != "=":
            depth -= 1
        if c == sep and depth == 0:
            out.append(cur.strip())
            cur = ""
        else:
            cur += c
        i += 1
    if cur.strip():
        out.append(cur.strip())
    return out


# ----------------------------------------------------------------------------- places
def parse_place(s, i=0):
    if s[i] == "_":
        j = i + 1
        while j < len(s) and s[j].isdigit():
            j += 1
        return ("local", int(s[i + 1:j])), j
    if s[i] == "(":
        if s[i + 1] == "*":
            inner, j = parse_place(s, i + 2)
            if s[j] != ")":
                raise Unsupported("place: " + s)
            return ("deref", inner), j + 1
        inner, j = parse_place(s, i + 1)
        if s.startswith(" as ", j):
            k = s.index(")", j)
            return ("downcast", inner, s[j + 4:k]), k + 1
        if s[j] == ".":
            k = j + 1
            while s[k].isdigit():
                k += 1
            idx = int(s[j + 1:k])
            if not s.startswith(": ", k):
                raise Unsupported("place: " + s)
            depth, m = 1, k
            while depth:
                c = s[m]
                if c == "(":
                    depth += 1
                elif c == ")":
                    depth -= 1
                m += 1
            return ("field", inner, idx), m
    raise Unsupported("place: " + s)


def place_of(s):
    s = s.strip()
    node, j = parse_place(s, 0)
    if j != len(s):
        raise Unsupported("trailing place text: " + s)
    return node


VARIANT_INDEX = {
    "bound": {"Included": 0, "Excluded": 1, "Unbounded": 2},          # std::ops::Bound
    "tagged": {"NonexistentOptional": 0, "Some": 1},                   # interpreter::TaggedValue (checked against source)
    "opt": {"None": 0, "Some": 1},
}


class Frame:
    def __init__(self, interp):
        self.l = {}
        self.interp = interp

    def get(self, node):
        k = node[0]
        if k == "local":
            if node[1] not in self.l:
                raise Unsupported(f"read of unset local _{node[1]}")
            return self.l[node[1]]
        if k == "deref":
            v = self.get(node[1])
            if v.get("kind") != "ref":
                raise Unsupported("deref of non-reference")
            return v["get"]()
        if k == "downcast":
            v = self.get(node[1])
            if v.get("kind") not in VARIANT_INDEX or v["variant"] != node[2]:
                raise Unsupported(f"downcast to {node[2]} of {v.get('kind')}::{v.get('variant')}")
            return {"kind": "payload", "items": v["payload"]}
        if k == "field":
            v = self.get(node[1])
            if v.get("kind") in ("tuple", "payload", "env", "closure", "struct"):
                return v["items"][node[2]]
            if v.get("kind") == "range":       # struct Range { start, end, null_included } (field order checked against source)
                return [v["start"], v["end"], {"kind": "bool", "v": v["null_included"]}][node[2]]
            raise Unsupported("field of " + str(v.get("kind")))
        raise Unsupported("place kind")

    def set(self, node, val):
        if node[0] == "local":
            self.l[node[1]] = val
        elif node[0] == "deref":
            v = self.get(node[1])
            if v.get("kind") != "ref":
                raise Unsupported("store through non-reference")
            v["set"](val)
        else:
            raise Unsupported("store to projected place")


# ----------------------------------------------------------------------------- symbolic values
def FV(null, num):
    return {"kind": "fv", "null": null, "num": num}


def smt_bool(b):
    if b is True:
        return "true"
    if b is False:
        return "false"
    return b


def eqv(p, a):
    """null-safe equality of two scalar values"""
    pn, an = smt_bool(p["null"]), smt_bool(a["null"])
    return f"(or (and {pn} {an}) (and (not {pn}) (not {an}) (= {p['num']} {a['num']})))"


def member(c, p):
    """SMT term: is the (scalar, possibly null) value p denoted by candidate c?"""
    v = c["variant"]
    if v == "All":
        return "true"
    if v == "Impossible":
        return "false"
    if v == "Init":
        return f"(Init {smt_bool(p['null'])} {p['num']})"
    if v == "Single":
        return eqv(p, c["payload"][0])
    if v == "Multiple":
        lst = c["payload"][0]
        if lst.get("kind") != "fvlist":
            raise Unsupported("Multiple of non-list")
        return "(or false " + " ".join(eqv(p, e) for e in lst["elems"]) + ")"
    if v == "Range":
        r = c["payload"][0]
        if r.get("kind") != "range":
            raise Unsupported("Range payload")
        def side(b, is_start):
            if b["variant"] == "Unbounded":
                return "true"
            x = b["payload"][0]
            if x.get("kind") != "fv":
                raise Unsupported("bound payload")
            op = {("Included", True): "<=", ("Excluded", True): "<", ("Included", False): ">=", ("Excluded", False): ">"}[(b["variant"], is_start)]
            # start: x <=|< p ; end: x >=|> p
            return f"({op} {x['num']} {p['num']})"
        return f"(ite {smt_bool(p['null'])} {smt_bool(r['null_included'])} (and {side(r['start'], True)} {side(r['end'], False)}))"
    if v == "Isect":
        return f"(and {member(c['a'], p)} {member(c['b'], p)})"
    if v == "Excl":
        return f"(and {member(c['a'], p)} (not {eqv(p, c['x'])}))"
    raise Unsupported("candidate variant " + v)


def cand(variant, payload=None, **kw):
    d = {"kind": "cand", "variant": variant, "payload": payload or []}
    d.update(kw)
    return d


# ----------------------------------------------------------------------------- interpreter
class Interp:
    def __init__(self, fns):
        self.fns = fns
        self.encoded = set()
        self.steps = 0

    # -- symbolic branches: depth-first re-execution with a decision list --------------------------
    decisions, dpos, pc = (), 0, None

    def decide(self, term):
        if self.pc is None:
            raise Unsupported("switchInt on symbolic operand")
        if self.dpos >= len(self.decisions):
            raise NeedFork()
        d = self.decisions[self.dpos]
        self.dpos += 1
        self.pc.append(term if d else f"(not {term})")
        return d

    def run_paths(self, name, mkargs, limit=32):
        """every path of `name` through symbolic switches: list of (path condition terms, result | PanicPath)."""
        paths, work = [], [[]]
        while work:
            d = work.pop()
            self.decisions, self.dpos, self.pc = d, 0, []
            self.steps = 0
            try:
                res = self.run(name, mkargs())
                paths.append((list(self.pc), res))
            except NeedFork:
                work.append(d + [False])
                work.append(d + [True])
            except PanicPath as e:
                paths.append((list(self.pc), e))
            finally:
                pc_done, self.pc = self.pc, None
            if len(paths) + len(work) > limit:
                raise Unsupported(f"more than {limit} symbolic paths in {name.split('(')[0]}")
        return paths

    def find(self, suffix_re):
        hits = [k for k in self.fns if re.search(suffix_re, k)]
        if len(hits) != 1:
            raise Unsupported(f"{len(hits)} MIR functions match {suffix_re}")
        return hits[0]

    def operand(self, fr, s):
        s = s.strip()
        if s.startswith("const "):
            c = s[6:].strip()
            if c == "true":
                return {"kind": "bool", "v": True}
            if c == "false":
                return {"kind": "bool", "v": False}
            mp = re.search(r"::promoted\[(\d+)\]$", c)
            if mp:      # a promoted constant of the function being executed: run its own MIR item
                key = f"const {fr.fn}::promoted[{mp.group(1)}]:"
                hits = [k for k in self.fns if k.startswith(key)]
                if len(hits) != 1:
                    raise Unsupported(f"{len(hits)} MIR items for {key}")
                return self.run(hits[0], {})
            mi = re.match(r"^(-?\d+)_(u64|usize|i64|isize|u32|i32)$", c)
            if mi:
                return {"kind": "int", "v": int(mi.group(1))}
            return {"kind": "opaque", "what": c}
        for pre in ("no_retag copy ", "move ", "copy "):
            if s.startswith(pre):
                return fr.get(place_of(s[len(pre):]))
        raise Unsupported("operand: " + s)

    def rvalue(self, fr, rhs):
        rhs = rhs.strip()
        if rhs.startswith(("const ", "move ", "copy ", "no_retag copy ")):
            return self.operand(fr, rhs)
        m = re.match(r"^&(mut )?(.+)$", rhs)
        if m:
            node = place_of(m.group(2))
            return {"kind": "ref", "get": (lambda n=node: fr.get(n)), "set": (lambda v, n=node: fr.set(n, v))}
        m = re.match(r"^discriminant\((.+)\)$", rhs)
        if m:
            v = fr.get(place_of(m.group(1)))
            if v.get("kind") not in VARIANT_INDEX:
                raise Unsupported("discriminant of " + str(v.get("kind")))
            return {"kind": "int", "v": VARIANT_INDEX[v["kind"]][v["variant"]]}
        m = re.match(r"^Bound::<[^>]+>::Unbounded$", rhs)
        if m:
            return {"kind": "bound", "variant": "Unbounded", "payload": []}
        m = re.match(r"^Bound::<[^>]+>::(Included|Excluded)\((.+)\)$", rhs)
        if m:
            return {"kind": "bound", "variant": m.group(1), "payload": [self.operand(fr, m.group(2))]}
        m = re.match(r"^CandidateValue::<FieldValue>::(Single|Multiple|Range)\((.+)\)$", rhs)
        if m:
            return cand(m.group(1), [self.operand(fr, m.group(2))])
        m = re.match(r"^CandidateValue::<FieldValue>::(Impossible|All)$", rhs)
        if m:
            return cand(m.group(1))
        m = re.match(r"^candidates::Range::<T> \{ (.+) \}$", rhs)
        if m:
            fields = {}
            for f in split_top(m.group(1)):
                k, v = f.split(": ", 1)
                fields[k] = self.operand(fr, v)
            if set(fields) != {"start", "end", "null_included"}:
                raise Unsupported("Range fields " + str(sorted(fields)))
            ni = fields["null_included"]
            if ni.get("kind") != "bool":
                raise Unsupported("null_included operand")
            return {"kind": "range", "start": fields["start"], "end": fields["end"], "null_included": ni["v"]}
        if rhs in ("FieldValue::Null", "ir::value::FieldValue::Null"):
            return FV(True, "0")
        m = re.match(r"^(?:ir::value::)?FieldValue::(Int64|Uint64)\((.+)\)$", rhs)
        if m:
            v = self.operand(fr, m.group(2))
            if v.get("kind") == "int":
                return FV(False, str(v["v"]) if v["v"] >= 0 else f"(- {-v['v']})")
            if v.get("kind") == "sint":
                return FV(False, v["t"])
            raise Unsupported("FieldValue integer constructor operand")
        m = re.match(r"^Not\((.+)\)$", rhs)
        if m:
            v = self.operand(fr, m.group(1))
            if v.get("kind") == "bool":
                return {"kind": "bool", "v": not v["v"]}
            if v.get("kind") == "sbool":
                return {"kind": "sbool", "t": f"(not {v['t']})"}
            raise Unsupported("Not on " + str(v.get("kind")))
        m = re.match(r"^std::option::Option::<(u64|i64|usize)>::Some\((.+)\)$", rhs)
        if m:
            return {"kind": "opt", "variant": "Some", "payload": [self.operand(fr, m.group(2))]}
        if re.match(r"^std::option::Option::<(u64|i64|usize)>::None$", rhs):
            return {"kind": "opt", "variant": "None", "payload": []}
        if rhs.startswith("{closure@"):
            return {"kind": "opaque", "what": "closure"}
        if rhs.startswith("(") and rhs.endswith(")"):
            return {"kind": "tuple", "items": [self.operand(fr, x) for x in split_top(rhs[1:-1])]}
        raise Unsupported("rvalue: " + rhs)

    def call(self, fr, func, args):
        a = [self.operand(fr, x) for x in args]
        def deref(v):
            return v["get"]() if v.get("kind") == "ref" else v
        if "as Clone>::clone" in func:
            return deref(a[0])
        m = re.search(r"Range::<FieldValue>::(with_start|with_end)$", func)
        if m:
            name = self.find(r"^fn candidates::<impl at [^>]*candidates\.rs[^>]*>::" + m.group(1) + r"\(_1: Bound<T>, _2: bool\)")
            return self.run(name, {1: a[0], 2: a[1]})
        if func.endswith("NullableValue>::is_null") or func == "FieldValue::is_null":
            v = deref(a[0])
            if v.get("kind") == "fvlist":
                return {"kind": "bool", "v": False}
            if v.get("kind") != "fv":
                raise Unsupported("is_null on " + str(v.get("kind")))
            if not isinstance(v["null"], bool):
                return {"kind": "sbool", "t": v["null"]}
            return {"kind": "bool", "v": v["null"]}
        if func in ("FieldValue::as_u64", "FieldValue::as_i64", "FieldValue::as_usize"):
            v = deref(a[0])
            if v.get("kind") != "fv":
                raise Unsupported(func + " on non-scalar")
            lo, hi = {"FieldValue::as_u64": (0, HI), "FieldValue::as_usize": (0, HI), "FieldValue::as_i64": (LO, 2 ** 63 - 1)}[func]
            lo_t = str(lo) if lo >= 0 else f"(- {-lo})"
            # value-level definition: Some(v) iff the value is a non-null integer in the target range
            return {"kind": "symopt", "some": f"(and (not {smt_bool(v['null'])}) (>= {v['num']} {lo_t}) (<= {v['num']} {hi}))", "val": v["num"]}
        if re.match(r"^<(std::option::)?Option<(u64|i64|usize)> as PartialEq>::(eq|ne)$", func):
            def so(x):
                x = deref(x)
                if x.get("kind") == "symopt":
                    return x["some"], x["val"]
                if x.get("kind") == "opt":
                    if x["variant"] == "None":
                        return "false", "0"
                    p = x["payload"][0]
                    if p.get("kind") == "int":
                        return "true", str(p["v"])
                raise Unsupported("Option comparison operand")
            (s1, v1), (s2, v2) = so(a[0]), so(a[1])
            t = f"(or (and (not {s1}) (not {s2})) (and {s1} {s2} (= {v1} {v2})))"
            return {"kind": "sbool", "t": t if func.endswith("eq") else f"(not {t})"}
        if re.search(r"Arguments::<'_>::(from_str|new)", func) or "fmt::rt::Argument" in func:
            return {"kind": "opaque", "what": "fmt"}
        if func.startswith("panic_fmt") or "::panic" in func:
            raise PanicPath(func)
        if func == "CandidateValue::<FieldValue>::intersect":
            r = a[0]
            r["set"](cand("Isect", a=r["get"](), b=a[1]))
            return {"kind": "unit"}
        if func.startswith("CandidateValue::<FieldValue>::exclude_single_value"):
            r = a[0]
            x = deref(a[1])
            if x.get("kind") != "fv":
                raise Unsupported("exclude_single_value of non-scalar")
            r["set"](cand("Excl", a=r["get"](), x=x))
            return {"kind": "unit"}
        if func == "FieldValue::as_slice":
            v = deref(a[0])
            if v.get("kind") == "fvlist":
                return {"kind": "opt", "variant": "Some", "payload": [v]}
            return {"kind": "opt", "variant": "None", "payload": []}
        if func.startswith("std::option::Option::<&[FieldValue]>::unwrap_or_else"):
            if a[0].get("kind") != "opt":
                raise Unsupported("unwrap_or_else operand")
            if a[0]["variant"] == "Some":
                return a[0]["payload"][0]
            raise PanicPath("as_slice() on a non-list tag value")
        if func.startswith("std::slice::<impl [FieldValue]>::to_vec"):
            return a[0]
        if func.endswith("as Clone>::clone") or "Clone>::clone" in func:
            return deref(a[0])
        raise Unsupported("call to " + func)

    def run(self, name, args):
        if name.startswith("fn "):
            self.encoded.add(name.split("(")[0][3:])
        bbs = parse_blocks(self.fns[name])
        fr = Frame(self)
        fr.fn = name.split("(")[0][3:] if name.startswith("fn ") else name.split("::promoted[")[0][6:]
        fr.l.update(args)
        bb = "bb0"
        while True:
            self.steps += 1
            if self.steps > 5000:
                raise Unsupported("step bound exceeded (loop?)")
            stmts = bbs[bb]
            nxt = None
            for st in stmts:
                st = st.rstrip(";") if st.endswith(";") else st
                if st == "return":
                    return fr.l.get(0, {"kind": "unit"})
                if st.startswith(("StorageLive(", "StorageDead(", "ConstEvalCounter", "nop")):
                    continue      # the "MIR FOR CTFE" body of a const fn keeps its storage markers
                if st == "unreachable":
                    raise Unsupported("reached `unreachable` terminator")
                m = re.match(r"^goto -> (bb\d+)$", st)
                if m:
                    nxt = m.group(1)
                    break
                m = re.match(r"^drop\(.+\) -> \[return: (bb\d+),.*\]$", st)
                if m:
                    nxt = m.group(1)
                    break
                m = re.match(r"^switchInt\((.+)\) -> \[(.+)\]$", st)
                if m:
                    v = self.operand(fr, m.group(1))
                    if v.get("kind") == "bool":
                        val = 1 if v["v"] else 0
                    elif v.get("kind") == "int":
                        val = v["v"]
                    elif v.get("kind") == "sbool":
                        val = 1 if self.decide(v["t"]) else 0
                    else:
                        raise Unsupported("switchInt on symbolic operand")
                    targets = dict(t.split(": ") for t in split_top(m.group(2)))
                    nxt = targets.get(str(val), targets.get("otherwise"))
                    if nxt is None:
                        raise Unsupported("switchInt without matching target")
                    break
                m = re.match(r"^(_\d+) = (.+)\) -> (?:\[return: (bb\d+)(?:, unwind[^\]]*)?\]|(bb\d+)|unwind .*)$", st)
                if m:
                    # FUNC(ARGS: the argument list is the last balanced parenthesis group (generic
                    # arguments of FUNC may contain parentheses themselves, e.g. tuple types)
                    body = m.group(2)
                    depth, k = 1, len(body) - 1
                    while k >= 0:
                        if body[k] == ")":
                            depth += 1
                        elif body[k] == "(":
                            depth -= 1
                            if depth == 0:
                                break
                        k -= 1
                    if k < 0:
                        raise Unsupported("call statement: " + st)
                    res = self.call(fr, body[:k], split_top(body[k + 1:]))
                    fr.set(place_of(m.group(1)), res)
                    nxt = m.group(3)
                    if nxt is None:
                        raise PanicPath("diverging call " + m.group(2))
                    break
                m = re.match(r"^(\S+) = (.+)$", st)
                if m:
                    fr.set(place_of(m.group(1)), self.rvalue(fr, m.group(2)))
                    continue
                raise Unsupported("statement: " + st)
            if nxt is None:
                raise Unsupported("block without terminator: " + bb)
            bb = nxt


# ----------------------------------------------------------------------------- property
OPS = {  # operator -> SMT for "p <op> tag passes" (p possibly null; ordering tags non-null; = / != null-safe)
    "Equals": lambda p, a: eqv(p, a),
    "NotEquals": lambda p, a: f"(not {eqv(p, a)})",
    "LessThan": lambda p, a: f"(and (not {smt_bool(p['null'])}) (< {p['num']} {a['num']}))",
    "LessThanOrEqual": lambda p, a: f"(and (not {smt_bool(p['null'])}) (<= {p['num']} {a['num']}))",
    "GreaterThan": lambda p, a: f"(and (not {smt_bool(p['null'])}) (> {p['num']} {a['num']}))",
    "GreaterThanOrEqual": lambda p, a: f"(and (not {smt_bool(p['null'])}) (>= {p['num']} {a['num']}))",
}
REGIONS = {"p_gt_tag": "(and (not pn) (> pv av))", "p_lt_tag": "(and (not pn) (< pv av))", "p_eq_tag": "(and (not pn) (= pv av))", "p_null": "pn"}
ORDERING = ("LessThan", "LessThanOrEqual", "GreaterThan", "GreaterThanOrEqual")
LO, HI = -(2 ** 63), 2 ** 64 - 1


def arms_from_source(fn_name):
    src = open(f"{CORE}/src/interpreter/hints/dynamic.rs").read()
    i = src.index(f"fn {fn_name}<")
    j = src.index("\n    }\n" if fn_name == "resolve_fold_specific_field" else "\n}\n", i)
    body = src[i:j]
    arms = re.findall(r"Operation::(\w+)\(_, _\) =>", body)
    return arms


def check_tagged_enum_order():
    src = open(f"{CORE}/src/interpreter/mod.rs").read()
    m = re.search(r"enum TaggedValue \{(.*?)\n\}", src, re.S)
    names = re.findall(r"^\s{4}(\w+)(?:\(|,)", m.group(1), re.M)
    if names != ["NonexistentOptional", "Some"]:
        raise Unsupported("TaggedValue variants changed: " + str(names))


def header(list_len):
    h = ["(set-logic ALL)", "(declare-fun Init (Bool Int) Bool)", "(declare-const pn Bool)", "(declare-const pv Int)",
         "(declare-const an Bool)", "(declare-const av Int)",
         f"(assert (and (>= pv {LO}) (<= pv {HI}) (>= av {LO}) (<= av {HI})))".replace(f"{LO}", f"(- {-LO})")]
    for k in range(list_len):
        h += [f"(declare-const e{k}n Bool)", f"(declare-const e{k}v Int)",
              f"(assert (and (>= e{k}v (- {-LO})) (<= e{k}v {HI})))"]
    return h


def solve(smt, solver):
    cmd = {"z3": ["/usr/bin/z3", "-in", "-T:60"], "cvc5": ["cvc5", "--lang", "smt2", "--tlimit=60000", "--produce-models"]}[solver]
    t = time.time()
    r = subprocess.run(cmd, input=smt, capture_output=True, text=True)
    out = r.stdout.strip()
    # an (error ...) line *before* the verdict means an assertion was dropped: inconclusive.
    # (the one after `unsat` is only get-model having no model to print)
    for ln in out.splitlines():
        ln = ln.strip()
        if ln.startswith("(error"):
            return "error", out + r.stderr, time.time() - t
        if ln in ("sat", "unsat", "unknown"):
            return ln, out, time.time() - t
    return "error", out + r.stderr, time.time() - t


def obligations(interp, fn_label, closure_prefix_re, arms, list_lens):
    """yield (id, description, smt, meta) for every operator closure of one constructor."""
    closures = sorted([k for k in interp.fns if re.search(closure_prefix_re + r"::\{closure#\d+\}\(", k)],
                      key=lambda k: int(re.search(r"\{closure#(\d+)\}\(", k).group(1)))
    if len(closures) != len(arms) or not arms:
        raise Unsupported(f"{fn_label}: {len(closures)} closures in MIR but {len(arms)} operator arms in source")
    p = FV("pn", "pv")
    for name, op in zip(closures, arms):
        shapes = []
        if op in OPS:
            tag_null = False if op in ORDERING else "an"
            shapes.append(("scalar", FV(tag_null, "av"), 0))
        elif op == "OneOf":
            for n in list_lens:
                shapes.append((f"list{n}", {"kind": "fvlist", "elems": [FV(f"e{k}n", f"e{k}v") for k in range(n)]}, n))
        else:
            raise Unsupported(f"{fn_label}: operator arm {op} has no reference semantics here")
        for (sname, tagval, n) in shapes:
            env = {"kind": "env", "items": [cand("Init"), {"kind": "opaque", "what": "field_name"}, {"kind": "opaque", "what": "field_type"}, {"kind": "opaque", "what": "x"}]}
            envref = {"kind": "ref", "get": (lambda e=env: e), "set": None}
            for tagged, tlabel in (({"kind": "tagged", "variant": "Some", "payload": [tagval]}, "some"),
                                   ({"kind": "tagged", "variant": "NonexistentOptional", "payload": []}, "nonexistent")):
                if tlabel == "nonexistent" and sname not in ("scalar", f"list{list_lens[0]}"):
                    continue
                def mkargs(tagged=tagged):
                    env = {"kind": "env", "items": [cand("Init"), {"kind": "opaque", "what": "field_name"}, {"kind": "opaque", "what": "field_type"}, {"kind": "opaque", "what": "x"}]}
                    envref = {"kind": "ref", "get": (lambda e=env: e), "set": None}
                    return {1: envref, 2: {"kind": "tuple", "items": [{"kind": "opaque", "what": "ctx"}, tagged]}}
                paths = interp.run_paths(name, mkargs)
                bad_terms, panic_terms = [], []
                for pc, res in paths:
                    pct = "(and true " + " ".join(pc) + ")"
                    if isinstance(res, PanicPath):
                        panic_terms.append(pct)
                        continue
                    if res.get("kind") != "tuple" or res["items"][1].get("kind") != "cand":
                        raise Unsupported("closure result shape")
                    bad_terms.append(f"(and {pct} (not {member(res['items'][1], p)}))")
                mem = "(not (or false " + " ".join(bad_terms) + "))"
                panics = "(or false " + " ".join(panic_terms) + ")"
                if tlabel == "nonexistent":
                    passes = "true"
                elif op == "OneOf":
                    passes = "(or false " + " ".join(eqv(p, e) for e in tagval["elems"]) + ")"
                else:
                    passes = OPS[op](p, tagval)
                smt = "\n".join(header(n) + [f"(assert (and {passes} (Init pn pv) (not {mem})))", "(check-sat)", "(get-model)"])
                vac = "\n".join(header(n) + [f"(assert (and {passes} (Init pn pv)))", "(check-sat)"])
                meta = {"fn": fn_label, "op": op, "shape": sname, "tag": tlabel, "closure": name.split("(")[0][3:], "member": mem, "smt": smt, "paths": len(paths)}
                yield (f"{fn_label}/{op}/{sname}/{tlabel}", smt, vac, meta)
                if panic_terms:
                    # a path of the constructor panics: is it reachable for a value the engine lets through?
                    psmt = "\n".join(header(n) + [f"(assert (and {passes} (Init pn pv) {panics}))", "(check-sat)", "(get-model)"])
                    yield (f"{fn_label}/{op}/{sname}/{tlabel}/panic-free", psmt, vac, dict(meta, panic=True, smt=psmt))


def model_values(out):
    vals = {}
    for m in re.finditer(r"\(define-fun (\w+) \(\) (Int|Bool)\s+([^\n]+?)\)\s*(?=\(define-fun|\)\s*$|$)", out, re.S):
        name, ty, v = m.group(1), m.group(2), m.group(3).strip()
        if ty == "Bool":
            vals[name] = (v == "true")
        else:
            mm = re.match(r"^\(- (\d+)\)$", v)
            vals[name] = -int(mm.group(1)) if mm else int(v) if re.match(r"^-?\d+$", v) else None
    return vals


# ----------------------------------------------------------------------------- native replay / translator validation
def native(cases):
    """run the real compute_candidate_from_operation (through the verif hook) on concrete cases.
    case = (op, tag, p) with tag/p = None | int | [..]; returns list of (passes_real, member_real)."""
    spec = ";".join(f"{op}|{enc(tag)}|{enc(p)}" for op, tag, p in cases)
    env = dict(ENV, CARGO_TARGET_DIR=NATIVE_TARGET, C04_CASES=spec)
    r = subprocess.run(["cargo", "test", "--offline", "--manifest-path", f"{VERIF}/harness/Cargo.toml", "--lib", "c04_native", "--", "--nocapture", "--test-threads", "1"],
                       env=env, capture_output=True, text=True)
    res = []
    for ln in r.stdout.splitlines():
        m = re.search(r"C04CASE (\d+) passes=(true|false) member=(true|false|panic)$", ln.strip())
        if m:
            res.append((m.group(2) == "true", "panic" if m.group(3) == "panic" else m.group(3) == "true"))
    if len(res) != len(cases):
        raise Unsupported("native run did not report every case: " + r.stdout[-400:] + r.stderr[-800:])
    return res


def enc(v):
    if v is None:
        return "n"
    if isinstance(v, list):
        return "[" + ",".join(enc(x) for x in v) + "]"
    return str(v)


def main():
    tier = "quick"
    a = sys.argv[1:]
    if "--tier" in a:
        tier = a[a.index("--tier") + 1]
    t0 = time.time()
    known = json.load(open(f"{VERIF}/known_findings.json"))
    open_findings = [f for f in known.get("findings", []) if isinstance(f, dict) and f.get("property") == "C04"]
    list_lens = [2] if tier == "quick" else [0, 1, 2, 3, 4]
    notes, samples, queries, viol, inconclusive = [], [], [], [], []
    solver_s = 0.0
    try:
        check_tagged_enum_order()
        mir, mir_s, mir_cmd = dump_mir()
        fns = split_functions(mir)
        interp = Interp(fns)
        obs = []
        obs += list(obligations(interp, "compute_candidate_from_operation", r"^fn compute_candidate_from_operation", arms_from_source("compute_candidate_from_operation"), list_lens))
        obs += list(obligations(interp, "resolve_fold_specific_field", r"^fn dynamic::<impl at [^>]*dynamic\.rs[^>]*>::resolve_fold_specific_field", arms_from_source("resolve_fold_specific_field"), list_lens))
    except Unsupported as e:
        print(f"INCONCLUSIVE: C04 encoding failed: {e}")
        write_evidence(tier, t0, 0, 0, [], [f"inconclusive: {e}"], [], 0.0, 0, True)
        return 2
    for oid, smt, vac, meta in obs:
        r1, out1, s1 = solve(smt, "z3")
        r2, out2, s2 = solve(smt, "cvc5")
        rv, _, s3 = solve(vac, "z3")
        solver_s += s1 + s2 + s3
        q = {"id": oid, "z3": r1, "cvc5": r2, "premise_satisfiable": rv, "z3_s": round(s1, 3), "cvc5_s": round(s2, 3), "closure": meta["closure"]}
        queries.append(q)
        if rv == "unsat" and meta["shape"] == "list0" and meta["tag"] == "some":
            # nothing is `one_of` an empty list: the premise is legitimately unsatisfiable, the obligation holds trivially
            notes.append(f"{oid}: no value passes `one_of []`; holds trivially")
            continue
        if rv != "sat":
            inconclusive.append(f"{oid}: premise unsatisfiable or undecided ({rv}) - vacuous")
            continue
        if r1 == "unsat" and r2 == "unsat":
            continue
        if r1 == "sat" and r2 in ("sat", "unknown", "error"):
            vals = model_values(out1)
            q["model"] = {k: vals.get(k) for k in ("pn", "pv", "an", "av") if k in vals}
            viol.append((oid, meta, vals))
            continue
        inconclusive.append(f"{oid}: solvers disagree or undecided (z3={r1}, cvc5={r2})")
    # translator validation + replay against the real code (compute_candidate_from_operation only: it has a hook)
    validated = 0
    try:
        grid = []
        for op in arms_from_source("compute_candidate_from_operation"):
            if op == "OneOf":
                for tag in ([], [3], [3, None], [-(2 ** 63), 2 ** 64 - 1]):
                    for p in (None, 3, 4, 2 ** 64 - 1):
                        grid.append((op, tag, p))
            else:
                for tag in ((3, -(2 ** 63), 2 ** 63) if op in ORDERING else (3, None, 2 ** 64 - 1)):
                    for p in (None, 2, 3, 4, -(2 ** 63), 2 ** 64 - 1):
                        grid.append((op, tag, p))
        real = native(grid)
        # evaluate the encoding on the same concrete cases
        by = {m["op"] + "/" + m["shape"]: m for (_, _, _, m) in obs if m["fn"] == "compute_candidate_from_operation" and m["tag"] == "some"}
        interp2 = Interp(fns)
        script, metas = ["(set-logic ALL)"], []
        arms = arms_from_source("compute_candidate_from_operation")
        closures = sorted([k for k in fns if re.search(r"^fn compute_candidate_from_operation::\{closure#\d+\}\(", k)], key=lambda k: int(re.search(r"#(\d+)", k).group(1)))
        def lit(x):
            return "0" if x is None else (str(x) if x >= 0 else f"(- {-x})")
        for (op, tag, pval), (pass_real, mem_real) in zip(grid, real):
            name = closures[arms.index(op)]
            if isinstance(tag, list):
                tv = {"kind": "fvlist", "elems": [FV(x is None, lit(x)) for x in tag]}
            else:
                tv = FV(tag is None, lit(tag))
            def mkargs(tv=tv):
                env = {"kind": "env", "items": [cand("All"), {"kind": "opaque"}, {"kind": "opaque"}, {"kind": "opaque"}]}
                return {1: {"kind": "ref", "get": (lambda e=env: e), "set": None}, 2: {"kind": "tuple", "items": [{"kind": "opaque"}, {"kind": "tagged", "variant": "Some", "payload": [tv]}]}}
            terms = []
            for pc, res in interp2.run_paths(name, mkargs):
                if not isinstance(res, PanicPath):
                    terms.append("(and true " + " ".join(pc) + " " + member(res["items"][1], FV(pval is None, lit(pval))) + ")")
            mem = "(or false " + " ".join(terms) + ")"
            script += ["(push)", f"(assert {mem})", "(check-sat)", "(pop)"]
            metas.append((op, tag, pval, mem_real))
        t = time.time()
        r = subprocess.run(["/usr/bin/z3", "-in", "-T:120"], input="\n".join(script) + "\n", capture_output=True, text=True)
        solver_s += time.time() - t
        verdicts = [ln.strip() for ln in r.stdout.splitlines() if ln.strip()]
        if len(verdicts) != len(metas) or any(v not in ("sat", "unsat") for v in verdicts):
            raise Unsupported("validation batch: unexpected solver output " + r.stdout[:300])
        for (op, tag, pval, mem_real), v in zip(metas, verdicts):
            mem_model = (v == "sat")
            # the encoding keeps the minimum exclude_single_value may keep; everything else is exact
            if mem_model != mem_real and not (op == "NotEquals" and mem_real and not mem_model):
                inconclusive.append(f"translator validation: encoding says member={mem_model}, real code says {mem_real} for {op} tag={tag} p={pval}")
            validated += 1
    except (Unsupported, PanicPath) as e:
        inconclusive.append(f"translator validation failed to run: {e}")
    # replay violations
    reported = 0
    known_matched = 0
    for oid, meta, vals in viol:
        op = meta["op"]
        desc = f"{meta['fn']}: hint for `{op}` against a tag excludes a value that passes the filter"
        kf = [f for f in open_findings if f.get("match", {}).get("fn") == meta["fn"] and f.get("match", {}).get("op") == op
              and f["match"].get("tag") == meta["tag"] and f["match"].get("region") in REGIONS]
        if kf and meta["shape"] == "scalar":
            # A known finding is one failing region of one operator of one constructor (e.g. "probe
            # strictly above the tag"). It is matched only if the solver's model lies in that region,
            # and everything OUTSIDE the region must still be proved: the same query with the region
            # excluded has to be unsat for both solvers, otherwise that is a different violation.
            region = REGIONS[kf[0]["match"]["region"]]
            rest = meta["smt"].replace("(check-sat)", f"(assert (not {region}))\n(check-sat)")
            ra, outa, sa = solve(rest, "z3")
            rb, _, sb = solve(rest, "cvc5")
            solver_s += sa + sb
            queries.append({"id": oid + "/outside-known-region", "z3": ra, "cvc5": rb, "premise_satisfiable": "sat", "closure": meta["closure"]})
            if ra == "unsat" and rb == "unsat":
                print(f"KNOWN-FINDING: property=C04 {kf[0]['what']}")
                notes.append(f"known finding matched: {oid} (model p={vals.get('pv')}, tag={vals.get('av')}); outside the known region the obligation is unsat")
                known_matched += 1
                continue
            if ra == "sat":
                vals = model_values(outa)      # a violation the file does not list: go on to replay it
            else:
                inconclusive.append(f"{oid}: outside the known failing region the solvers are undecided (z3={ra}, cvc5={rb})")
                continue
        native_op = op
        if meta["fn"] == "resolve_fold_specific_field":
            # replayed through the hook verif_hints::fold_specific_candidate, which builds a context whose fold has
            # `tag` elements: the tag of this constructor is a fold count, so ask for a model with a small count
            native_op = "F:" + op
            if meta["shape"] != "scalar":
                inconclusive.append(f"{oid}: solver found a counterexample but a fold count cannot be a list; not replayable")
                continue
            if meta["tag"] == "some":
                small = meta["smt"].replace("(check-sat)", "(assert (and (not an) (>= av 0) (<= av 64)))\n(check-sat)")
                rs, outs, ss = solve(small, "z3")
                solver_s += ss
                if rs != "sat":
                    inconclusive.append(f"{oid}: solver found a counterexample (p={vals.get('pv')}, tag={vals.get('av')}) but none whose tag is a fold count in 0..=64; not replayable natively")
                    continue
                vals = model_values(outs)
        if meta["shape"] == "scalar":
            tag = None if vals.get("an") and op not in ORDERING else vals.get("av", 0)
        else:
            n = int(meta["shape"][4:])
            tag = [None if vals.get(f"e{k}n") else vals.get(f"e{k}v", 0) for k in range(n)]
        if meta["tag"] == "nonexistent":
            tag = "x"         # the tag's @optional scope does not exist: every value passes
        pval = None if vals.get("pn") else vals.get("pv", 0)
        try:
            (pass_real, mem_real), = native([(native_op, tag, pval)])
        except Unsupported as e:
            inconclusive.append(f"{oid}: replay failed to run: {e}")
            continue
        if meta.get("panic") and pass_real and mem_real == "panic":
            os.makedirs(f"{VERIF}/replay", exist_ok=True)
            path = f"{VERIF}/replay/C04-{meta['fn']}-{op}-{meta['tag']}-panic.txt"
            open(path, "w").write(f"{native_op}|{enc(tag)}|{enc(pval)}\n# replay: python3 /verif/c04_mir.py --replay {path}\n# the engine lets property value {pval} through `{op}` against tag value {tag} ('x' = tag from a non-existent optional scope), but computing the dynamic hint candidate panics\n")
            print(f"VIOLATION property=C04 replay={path}")
            print(f"  {meta['fn']}: computing the hint for `{op}` panics although the filter passes: property value {pval}, tag value {tag}")
            reported += 1
            continue
        if pass_real and mem_real is False:
            os.makedirs(f"{VERIF}/replay", exist_ok=True)
            path = f"{VERIF}/replay/C04-{meta['fn']}-{op}-{meta['tag']}.txt"
            open(path, "w").write(f"{native_op}|{enc(tag)}|{enc(pval)}\n# replay: python3 /verif/c04_mir.py --replay {path}\n# the real filter `{op}` passes for property value {pval} against tag value {tag}, but the dynamic hint candidate computed by {meta['fn']} does not contain it\n")
            print(f"VIOLATION property=C04 replay={path}")
            print(f"  {desc}: property value {pval}, tag value {tag}")
            reported += 1
        else:
            inconclusive.append(f"{oid}: counterexample (p={pval}, tag={tag}) did not reproduce natively (passes={pass_real}, member={mem_real}): encoding wrong")
    # ---- static part (hints/filters.rs): whole static constructor + mandatory-fold classification
    static_nq = static_unsat = 0
    try:
        import c04_static
        st = c04_static.run(fns, tier)
        static_nq, static_unsat = st["nq"], st["nunsat"]
        solver_s += st["solver_s"]
        validated += st["validated"]
        notes += st["notes"]
        inconclusive += st["inconclusive"]
        interp.encoded |= set(st["encoded"])
        queries += st["queries"]
        if len(st["violations"]) > 6:
            notes.append(f"static part: {len(st['violations'])} obligations have natively confirmed counterexamples; the first 6 are reported")
        for oid, line, desc in st["violations"][:6]:
            os.makedirs(f"{VERIF}/replay", exist_ok=True)
            path = f"{VERIF}/replay/C04-static-" + re.sub(r"[^A-Za-z0-9]+", "_", oid)[:80] + ".txt"
            open(path, "w").write(f"{line}\n# replay: python3 /verif/c04_mir.py --replay {path}\n# {desc}\n")
            print(f"VIOLATION property=C04 replay={path}")
            print(f"  {desc}")
            reported += 1
    except (Unsupported, PanicPath) as e:
        inconclusive.append(f"static part: encoding failed: {e}")
    for q in queries[:6]:
        samples.append(q)
    for q in queries:
        if q.get("model"):
            samples.append(q)
    dyn_q = [q for q in queries if not q["id"].startswith(("S1/", "S2/"))]
    write_evidence(tier, t0, len(dyn_q) + static_nq, sum(1 for q in dyn_q if q["z3"] == "unsat" and q["cvc5"] == "unsat") + static_unsat, samples[:14], notes + inconclusive, sorted(interp.encoded), solver_s, validated, bool(inconclusive), reported, mir_s, mir_cmd, list_lens)
    for i in inconclusive:
        print("INCONCLUSIVE:", i)
    if reported:
        return 1
    if inconclusive:
        return 2
    print(f"C04 {tier}: {len(dyn_q)} dynamic-hint + {static_nq} static-hint queries; every obligation unsat for z3 and cvc5 except {known_matched} known finding(s), outside whose region the obligation is unsat too; {validated} concrete cases agree between encoding and real code")
    return 0


def write_evidence(tier, t0, nq, nunsat, samples, notes, encoded, solver_s, validated, inconclusive, violations=0, mir_s=0.0, mir_cmd="", list_lens=()):
    if "--no-evidence" in sys.argv:
        return
    ev = {
        "property_id": "C04", "tier": tier, "seed": int(os.environ.get("VERIF_SEED", "0") or 0), "level": "model_checking",
        "coverage": {
            "evaluations": nq, "distinct_nontrivial": nunsat,
            "rule": "one evaluation = one SMT query. Dynamic hints: the MIR of one operator closure of a dynamic-hint constructor, executed symbolically (tag value, probe value, nullness flags as SMT variables, the initial candidate as an uninterpreted predicate). Static hints: the MIR of candidate_from_statically_evaluated_filters (whole body and every closure) executed on one concrete list of filters (operators / argument kinds concrete, argument values and probe symbolic), or the MIR of the mandatory-fold classification on one candidate shape. The negated property is asserted; decided by z3 and cross-checked by cvc5 (both must answer unsat). Counted as non-trivial: both unsat.",
            "samples": samples or [{"note": "no query was generated"}],
            "exhaustive": False,
            "functions_encoded": encoded,
            "bounds": f"every 64-bit integer tag / argument / probe value (integers as a stand-in for any totally ordered scalar kind), null probe values, null arguments for = and !=; one_of tags of {list(list_lens)} elements with any nulls. Dynamic: one filter per hint, initial candidate arbitrary. Static: every list of 1 filter over all 20 operators x ($variable | %tag) and every list of {'2' if tier == 'quick' else '2 and 3'} filters over 16 filter kinds (10 operators with integer semantics with $variable arguments, list arguments of {'2' if tier == 'quick' else '0..=3'} elements, two tag-argument kinds, two operators with free semantics), field nullable or not. Mandatory-fold classification: every candidate shape (Impossible, All, Single, Multiple of 0..={'2' if tier == 'quick' else '3'}, Range with each of the 9 bound-kind pairs x null_included)",
            "outside_claim": "non-binding filters (NeighborInfo), EdgeInfo::is_mandatory for non-fold edges, which filters are handed to the constructors (vertex_info.rs), the end-to-end statement (pruning adapter == plain adapter); lists of more than 3 filters; list-valued tags for operators other than one_of",
            "solver_time_s": round(solver_s, 2), "mir_dump_s": round(mir_s, 1), "mir_cmd": mir_cmd,
            "traces_validated_against_impl": validated,
            "inconclusive": inconclusive, "notes": notes,
            "engine": "own MIR symbolic interpreter (c04_mir.py) -> SMT-LIB2 -> z3 4.8.12 + cvc5 1.0; MIR regenerated from /repo working tree on this run",
        },
        "assumptions": [
            "rustc's MIR (nightly -Zunpretty=mir, debug assertions off) is the code under test; the i-th `Operation::X(_, _) =>` arm of the constructor in dynamic.rs owns `{closure#i}` (closures are numbered in source order; the run is inconclusive if the counts differ)",
            "callee summaries: CandidateValue::intersect is set intersection and exclude_single_value removes at most the given value (both decided for the real generic code by C06); Clone::clone, as_slice, to_vec, unwrap_or_else(Some) are identities; Range::with_start / with_end are NOT summarised but executed from their own MIR",
            "values are modelled as null or an integer in [-2^63, 2^64): the constructors only move the tag value into a bound / a set, so only order and equality matter (their laws on FieldValue are C08)",
            "ordering filters are evaluated against non-null tags (Range::with_* asserts it)",
            "static part, modelled rather than executed: Option::and_then/expect/is_some/unwrap_or_default, itertools partition_map, Iterator fold/filter_map/flatten/collect/next/all/once, Vec is_empty/into_iter/deref, slice iter, Box::new, BTreeMap index (a variable name maps to the value attached to it), Cow/AsRef/Deref/ToOwned (transparent), FieldValue::as_vec_with/as_slice/as_u64 (value-level definitions), CandidateValue::normalize (membership-preserving, C06); executed from their own MIR: Operation::right, Argument::evaluate_statically, Range::with_start/with_end/full_non_null/start_bound and every closure of the two functions",
            "static part: operators without integer semantics (contains, string and regex operators) and every filter against a %tag get a free Boolean as their verdict - the constructor must be sound whatever they decide",
            "a non-nullable field never holds null (premise `nullable or p non-null`)",
        ],
        "wall_s": round(time.time() - t0, 1), "violations": violations,
    }
    os.makedirs(f"{VERIF}/evidence", exist_ok=True)
    json.dump(ev, open(f"{VERIF}/evidence/C04.json", "w"), indent=1)


def replay(path):
    line = open(path).read().splitlines()[0]
    if line.startswith(("S|", "M|")):
        import c04_static
        (res,) = c04_static.native_static([line])
        print("real code:", res)
        if (line[0] == "S" and res["passes"] == "true" and res["cand"] == "some" and res["member"] == "false") or \
           (line[0] == "M" and res["mandatory"] == "true" and res["empty_passes"] == "true"):
            print(f"VIOLATION property=C04 replay={path}")
            return 1
        return 0
    op, tag, p = line.split("|")
    def dec(s):
        if s == "n":
            return None
        if s.startswith("["):
            return [dec(x) for x in s[1:-1].split(",") if x]
        return int(s)
    (pass_real, mem_real), = native([(op, "x" if tag == "x" else dec(tag), dec(p))])
    print(f"real filter passes={pass_real}; real hint candidate contains the value={mem_real}")
    if pass_real and mem_real in (False, "panic"):
        print(f"VIOLATION property=C04 replay={path}")
        return 1
    return 0


def prebuild():
    """setup: compile the dependencies for the MIR dump and the native replay crate"""
    try:
        dump_mir()
    except Unsupported as e:
        print("prebuild (mir):", e)
    try:
        native([("Equals", 1, 1)])
    except Unsupported as e:
        print("prebuild (native):", e)


def entry():
    if os.environ.get("C04_PREBUILD"):
        prebuild()
        return 0
    if "--replay" in sys.argv:
        return replay(sys.argv[sys.argv.index("--replay") + 1])
    return main()


if __name__ == "__main__":
    # run through the imported module so that c04_static (which imports c04_mir) shares its classes and tables
    sys.path.insert(0, VERIF)
    import c04_mir
    sys.exit(c04_mir.entry())
