"""Per-property harness selection and the stated bounds / assumptions of each claim."""

COMMON = [
    "Kani 0.68 / CBMC 6.11 / CaDiCaL are sound for the goto program they are given; the rustc MIR -> goto translation by kani-compiler is trusted",
    "Kani models the dev-profile semantics of Rust (debug assertions and overflow checks on); counterexamples are additionally replayed natively in dev and in an optimised, assertion-free profile",
    "shapes (enum variants, string and list lengths, list depths) are enumerated concretely up to the stated sizes; only payloads (every integer, float, boolean, byte, nullability bit) are symbolic",
    "std::fmt::format is stubbed to return an empty String in harnesses whose error paths format symbolic data (message text is never asserted)",
    "<Type as Display>::fmt is stubbed to print nothing (only error messages render types) and std::sync::Arc::drop_slow is stubbed to leak instead of free (destructors have no observable effect here; the recursive drop glue of FieldValue::List is what makes CBMC explode wherever a value is dropped on a symbolic path)",
]
VALS = [
    "Float64 payloads are assumed finite (documented invariant of FieldValue::Float64)",
    "string payloads are ASCII bytes (< 128)",
]


def tiers(mod, extra_quick=(), extra_thorough=()):
    q = [f"{mod}::quick::"] + list(extra_quick)
    return {"quick": q, "thorough": q + [f"{mod}::thorough::"] + list(extra_thorough)}


PROPS = {
    "C22": {
        "filters": tiers("c22"),
        "harness_timeout": {"quick": 1800, "thorough": 3600},
        "bounds": {
            "quick": "get_max_fold_count_limit / get_min_fold_count_limit on a fold with one count filter (=, !=, <, <=, >, >=) against a variable holding any i64 or any u64, and every count value (u64); one_of with lists of 1..2 integers; seven two-filter combinations on one variable; collect_fold_elements on an empty fold with symbolic limits",
            "thorough": "as quick plus all 36 ordered pairs of operators on one variable (signed and unsigned argument), one_of with 0 and 3 elements",
        },
        "outside": "everything around the limit arithmetic: the eligibility test that decides when truncation at the min limit is allowed (inline in compute_fold; the nested-fold defect of DESIGN 6 lives there), collect_fold_elements on non-empty folds (> 10 min with two DataContexts), count filters against tags, two filters against two different variables (a two-entry argument map exhausts memory: 35 GB after 4 min)",
        "assumptions": COMMON + [
            "std::sync::Arc::drop_slow is stubbed to do nothing (memory is leaked instead of freed): destructors of field values, types and IR have no observable effect, and their recursive drop glue is what made these functions unreachable before",
            "the fold's count is a machine integer >= 0; 'the filter passes' is the numeric comparison of the count with the argument (decided for the real operator kernels by C07)",
        ],
    },
    "C06": {
        "filters": tiers("c06", extra_thorough=["c06::fv::"]),
        "harness_timeout": {"quick": 1800, "thorough": 3600},
        "bounds": {
            "quick": "CandidateValue<V>/Range<V> monomorphised at V={Null,I(i64),U(u64)}: all 64-bit endpoints/elements/probes and null_included symbolic; Multiple of 0..=2 elements; every ordered pair of {Impossible, Single, All, Multiple(0|1|2), Range(start kind x end kind)} except that Range x Range runs a path-covering 26 of the 81 bound-kind shapes and Range x Multiple(1|2) one shape; normalize and exclude_single_value on all 15 shapes; unwind 3..12",
            "thorough": "as quick plus all 81 Range x Range bound-kind shapes, all Range x Multiple shapes, and Multiple of 3 elements against everything",
        },
        "outside": "Multiple longer than 3; string- or float-valued endpoints (the generic code touches elements only through ==, <, <=, >, >=, is_null, default, clone; their laws on FieldValue are C08); the T=FieldValue / &FieldValue / Cow instantiations themselves (identical source, measured > 15 min for one mixed-kind Range x Range shape)",
        "assumptions": COMMON + [
            "range bounds are non-null (Range::new asserts it; harnesses build ranges through Range::new)",
            "transfer to FieldValue relies on C08: FieldValue's ==/< on Null/Int64/Uint64 agree with V's",
        ],
    },
    "C07": {
        "filters": tiers("c07"),
        "bounds": {
            "quick": "all 64-bit integer / finite float / boolean payloads; strings of 0..=2 ASCII bytes; lists of 0..=2 scalars; every operator except regex; unwind 2..5 with unwinding assertions",
            "thorough": "as quick plus strings of 3 bytes (a few shapes of 4), 3-element lists against lists of at most one element (3 x 3 element ordering does not finish in 20 min; membership also in 3- and 4-element lists), membership of a list in a list of lists",
        },
        "outside": "regex / not_regex (regex_automata cannot be compiled by kani-compiler 0.68); non-ASCII or longer strings; longer lists; nested lists (a single == on [[i64]] vs [[u64]] takes 253 s, filtering::equals > 15 min); ordering of lists that contain null elements (not documented)",
        "assumptions": COMMON + VALS + [
            "ordering operators are only called on operand pairs the frontend admits (same orderable type modulo nullability); equality, one_of and contains on every pair",
        ],
    },
    "C08": {
        "filters": tiers("c08"),
        "bounds": {
            "quick": "every triple over {Null, Int64, Uint64, Float64, Boolean} (125 shape triples, all payloads) plus string/enum (<= 2 bytes) and list (<= 2 integers) triples",
            "thorough": "as quick plus every heap kind (String/Enum <= 2 bytes, lists of 1..2 integers) in each position against every scalar pair, strings/enums of 3 bytes (two triples of 4-byte strings); lists stay <= 2 elements (a triple containing one 3-element list does not finish in 15 min)",
        },
        "outside": "nested lists (measured: 253 s for one == on depth-2 lists, triples do not finish); strings > 4 bytes, non-ASCII; lists > 2",
        "assumptions": COMMON + VALS,
    },
    "C09": {
        "filters": {"quick": ["c09::l3::", "c09::quick::"], "thorough": ["c09::l3::", "c09::quick::", "c09::thorough::"]},
        "harness_timeout": {"quick": 1800, "thorough": 3600},
        "bounds": {
            "quick": "L1 (frontend type inference + operand check, real code) for property types Int, [Int], String with symbolic nullability x one operator per dispatch family, and 8 tag-argument shapes; L2 (operator kernels never panic) for every pair of Int- and String-class operand shapes with nulls anywhere, lists <= 2, strings <= 2 bytes; L3 usize_from_field_value on all i64/u64/null",
            "thorough": "L1 for bases Int, String, Float, Boolean, custom scalar x depth 0..=2 x all 16 binary operators and 480 tag-argument shapes; L2 for all four scalar classes, lists <= 3",
        },
        "outside": "everything that needs the pipeline: imported-tag bookkeeping in compute_fold, Regex::new(..).expect(..) on an invalid pattern, adapter-contract assertions, the iterator tower itself; regex operators",
        "assumptions": COMMON + VALS + [
            "the link 'the engine accepted this argument => the value has one of the enumerated shapes' is C12 (is_valid_value == fits)",
        ],
    },
    "C12": {
        "filters": tiers("c12"),
        "bounds": {
            "quick": "types over bases Int, Float, String, Boolean, custom scalar with list depth 0..=1 and symbolic nullability at every level x 17 value shapes (scalars of every kind incl. Enum, lists of 0..=2 elements with nulls and mismatching kinds), all payloads",
            "thorough": "as quick plus list depth 2 and 3 types against the same value shapes",
        },
        "outside": "the missing/unused-variable bookkeeping of InterpretedQuery::from_query_and_arguments (two BTreeMaps + IndexedQuery: out of reach, see DESIGN 2); values nested deeper than one list level; the variable-type inference side is under C09",
        "assumptions": COMMON + VALS,
    },
    "C13": {
        "filters": tiers("c13"),
        "bounds": {
            "quick": "get_output_type on property types of list depth 0..=1 (symbolic nullability at every level), vertex inside / outside @optional, 0..=2 enclosing folds with symbolic @optional-ness; fold-count outputs with 0..=1 enclosing folds",
            "thorough": "as quick plus the remaining depth x optional x fold-count combinations up to total list depth 3, built-in base names, count outputs under 2 folds",
        },
        "outside": "that the rows the engine produces actually carry values of the declared type (needs interpret_ir: not reachable); which vertices count as optional (get_optional_vertices_in_component walks the edge map) and the collection of outputs over the component tree (BTreeMaps); more than 2 enclosing folds / total list depth > 3",
        "assumptions": COMMON,
    },
    "C16": {
        "filters": tiers("c16"),
        "bounds": {
            "quick": "FieldValue -> TransparentValue -> FieldValue on every scalar kind (all payloads), strings/enums <= 2 bytes, lists of 0..=2 scalars",
            "thorough": "as quick plus strings of 3 bytes and more element-kind combinations (lists still <= 2)",
        },
        "outside": "the Type text round trip (Type::parse(t.to_string()): > 10 min for a non-list type); serde_json / RON text of values, types and IR (number formatting and parsing loops; IR is BTreeMap-heavy); lists of 3+ through the conversion (> 10 min)",
        "assumptions": COMMON + VALS,
    },
    "C17": {
        "filters": tiers("c17"),
        "harness_timeout": {"quick": 1800, "thorough": 3600},
        "bounds": {
            "quick": "pairs of types with list depth 0..=1 (all 4 depth combinations), same and different base names, symbolic nullability at every level: intersect, is_scalar_only_subtype, equal_ignoring_nullability each against the level-wise oracle; constructor/accessor round trip; with_nullability; law forms (greatest, partial order) at depth 0; upcast of 5 value shapes; interned fast paths for Int and String",
            "thorough": "as quick plus all 16 depth combinations 0..=3, law forms to depth 2, Float/Boolean fast paths, 10 more upcast shapes",
        },
        "outside": "list depth > 3 (the representation allows 30); base names longer than 7 bytes",
        "assumptions": COMMON + VALS,
    },
    "C18": {
        "filters": tiers("c18", extra_quick=["c18::containers::"]),
        "bounds": {
            "quick": "every i64 and every u64 source into each of i8,i16,i32,i64,isize,u8,u16,u32,u64,usize; Option<int> (4 pairs); null -> None; bool and f64 identity; integer target from null/bool source is an error; Vec<i64> / Vec<u8> / (i64,u64) tuple targets from two-element integer lists (all payloads; wrong tuple length is an error); String target from strings of 0..=2 ASCII bytes; String from integer is an error; i64 / u8 targets from any finite float source (an error, or the exact integer: never rounded or saturated)",
            "thorough": "as quick plus 11 more Option<int> pairs, the other integer targets from float sources, integer targets from string sources, bool from integer",
        },
        "outside": "f32 (lossy by design); struct / map targets, i.e. whole rows through try_into_struct (a one-entry BTreeMap row runs out of memory after 215-350 s); sequences longer than 2; strings longer than 2 bytes as decode targets",
        "assumptions": COMMON + VALS + ["serde's own primitive Deserialize impls are part of the code under test, not stubbed"],
    },
}
